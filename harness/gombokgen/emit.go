package gombokgen

import (
	_ "embed"
	"fmt"
	"regexp"
	"sort"
	"strconv"
	"strings"
)

//go:embed lib.go.txt
var libSrc string

//go:embed lib2.go.txt
var lib2Src string

//go:embed lib3.go.txt
var lib3Src string

const ModName = "scratch"

var classInfo = map[string]struct{ Pkg, TC, Prefix string }{
	"eq":     {"eq", "fp.Eq", "Eq"},
	"ord":    {"ord", "fp.Ord", "Ord"},
	"hash":   {"hash", "fp.Hashable", "Hashable"},
	"monoid": {"monoid", "fp.Monoid", "Monoid"},
	"clone":  {"clone", "fp.Clone", "Clone"},
	"show":   {"show", "fp.Show", "Show"},
}

// LibSource is the runtime support file of a scratch package.
func LibSource(pkg string) string {
	return strings.Replace(libSrc, "package PKGNAME", "package "+pkg, 1)
}

func Lib2Source(pkg string) string {
	return strings.Replace(lib2Src, "package PKGNAME", "package "+pkg, 1)
}

// Lib3Source: rendering of values for the `(derive …)` operation lines of oracle_derive (C08).
func Lib3Source(pkg string) string {
	return strings.Replace(lib3Src, "package PKGNAME", "package "+pkg, 1)
}

// GoMod is the go.mod of the scratch module.
func GoMod(repo string) string {
	return "module " + ModName + "\n\ngo 1.23\n\nrequire github.com/csgura/fp v0.0.0\n\nreplace github.com/csgura/fp => " + repo + "\n"
}

// DepSource: package dep declares a named type with instances in its own package and a @fp.Value
// struct with derived instances (instance resolution: "the type's own package").
func DepSource() string {
	return `package dep

import (
	"github.com/csgura/fp"
	"github.com/csgura/fp/eq"
	"github.com/csgura/fp/hash"
	"github.com/csgura/fp/monoid"
	"github.com/csgura/fp/ord"
)

// Money is compared by whole hundreds: the instances below are observably different from the
// structural ones of the derive packages (eq.Given, ord.Given, hash.Number, monoid.Product).
type Money int

var EqMoney fp.Eq[Money] = eq.New(func(a, b Money) bool { return a/100 == b/100 })

var OrdMoney fp.Ord[Money] = ord.New(EqMoney, func(a, b Money) bool { return a/100 < b/100 })

var HashableMoney fp.Hashable[Money] = hash.New(EqMoney, func(a Money) uint32 { return uint32(a / 100) })

var MonoidMoney fp.Monoid[Money] = monoid.New(func() Money { return 0 }, func(a, b Money) Money { return a + b })

// @fp.Value
type Pt struct {
	x int
	y string
}

func NewPt(x int, y string) Pt { return Pt{x: x, y: y} }

// @fp.Derive
var _ eq.Derives[fp.Eq[Pt]]
`
}

// ---------------------------------------------------------------------------------- types.go

func (p *Package) derivePkgs() map[string]bool {
	used := map[string]bool{}
	for _, s := range p.Structs {
		for _, d := range s.Derives {
			used[classInfo[d.Class].Pkg] = true
		}
	}
	return used
}

// TypesSource is the file gombok reads.
func (p *Package) TypesSource() string {
	var sb strings.Builder
	imports := map[string]bool{"fp": true}
	for _, s := range p.Structs {
		for _, f := range s.Fields {
			f.Ty.Uses(imports)
		}
		for _, tp := range s.TParams {
			_ = tp
		}
	}
	dp := p.derivePkgs()
	if p.OverrideMyInt && len(dp) > 0 {
		for _, k := range []string{"eq", "ord", "hash", "monoid"} {
			dp[k] = true
		}
	}
	if p.OverrideMoney != "" && imports["dep"] {
		dp["eq"] = true
	}
	sb.WriteString("package " + p.Name + "\n\nimport (\n")
	if imports["time"] {
		sb.WriteString("\t\"time\"\n")
	}
	sb.WriteString("\t\"github.com/csgura/fp\"\n")
	keys := []string{}
	for k := range dp {
		keys = append(keys, k)
	}
	sort.Strings(keys)
	for _, k := range keys {
		sb.WriteString("\t\"github.com/csgura/fp/" + k + "\"\n")
	}
	if imports["dep"] {
		sb.WriteString("\t\"" + ModName + "/dep\"\n")
	}
	// aliased imports: the generated code must import them under the identifier the declaration uses
	if imports["stdtime"] {
		sb.WriteString("\tstdtime \"time\"\n")
	}
	if imports["dp"] {
		sb.WriteString("\tdp \"" + ModName + "/dep\"\n")
	}
	sb.WriteString(")\n\nvar _ fp.Unit\n\n")
	if p.OverrideMyInt && len(dp) > 0 {
		sb.WriteString(`// local instances for MyInt: they take precedence over eq.Given[MyInt]() & co. (mod-10 semantics)
var EqMyInt fp.Eq[MyInt] = eq.New(func(a, b MyInt) bool { return zzMod10(int(a)) == zzMod10(int(b)) })

var OrdMyInt fp.Ord[MyInt] = ord.New(EqMyInt, func(a, b MyInt) bool { return zzMod10(int(a)) < zzMod10(int(b)) })

var HashableMyInt fp.Hashable[MyInt] = hash.New(EqMyInt, func(a MyInt) uint32 { return uint32(zzMod10(int(a))) })

var MonoidMyInt fp.Monoid[MyInt] = monoid.New(func() MyInt { return 0 }, func(a, b MyInt) MyInt { return a + b })

`)
	}
	if p.OverrideMoney != "" && imports["dep"] {
		fmt.Fprintf(&sb, "// local instance for dep.Money: takes precedence over dep.EqMoney (mod-7 semantics)\nvar %s fp.Eq[dep.Money] = eq.New(func(a, b dep.Money) bool { return a%%7 == b%%7 })\n\n", p.OverrideMoney)
	}
	for _, s := range p.Structs {
		sb.WriteString(s.Decl())
		sb.WriteString("\n")
		for _, d := range s.Derives {
			ci := classInfo[d.Class]
			if d.Recursive {
				sb.WriteString("// @fp.Derive(recursive=true)\n")
			} else {
				sb.WriteString("// @fp.Derive\n")
			}
			targ := s.Name
			if len(s.TParams) > 0 {
				anys := make([]string, len(s.TParams))
				for i := range anys {
					anys[i] = "any"
				}
				targ += "[" + strings.Join(anys, ", ") + "]"
			}
			fmt.Fprintf(&sb, "var _ %s.Derives[%s[%s]]\n\n", ci.Pkg, ci.TC, targ)
		}
	}
	return sb.String()
}

// ---------------------------------------------------------------------------------- reference instances (C08)

// usedParams: the type parameters for which the derived instance needs an instance ("one instance
// per type parameter actually used"): the parameter occurs in a field that takes part in deriving,
// at a position whose instance is built from the parameter's instance (monoid.MergeSlice[T]() &
// co. need none).
func (s *Struct) usedParams(class string) []TParam {
	// the instance parameters follow the DECLARED order of the type parameters (callers - gombok's own generated call
	// sites included - pass the instances in that order); before fix 142c76a gombok listed them in the order in which
	// the fields first needed them, and the generated call sites did not compile
	out := []TParam{}
	for _, p := range s.TParams {
		used := false
		for _, f := range s.Fields {
			if strings.HasPrefix(f.Name, "_") {
				continue
			}
			if tyUsesParam(class, f.Ty, p.Name) {
				used = true
			}
		}
		if used {
			out = append(out, p)
		}
	}
	return out
}

func tyUsesParam(class string, t *Ty, name string) bool {
	if t.K == "tparam" && t.Name == name {
		return true
	}
	if class == "monoid" && (t.K == "slice" || t.K == "seq" || t.K == "map") {
		return false
	}
	return t.Elem != nil && tyUsesParam(class, t.Elem, name)
}

// derivedInst: the call expression of the instance gombok generated for struct s
func (p *Package) derivedInst(class string, s *Struct) string {
	ci := classInfo[class]
	if len(s.TParams) == 0 {
		return ci.Prefix + s.Name + "()"
	}
	args := []string{}
	for _, tp := range s.usedParams(class) {
		args = append(args, p.refInst(class, tp.InstTy, s))
	}
	return ci.Prefix + s.Name + s.InstArgs() + "(" + strings.Join(args, ", ") + ")"
}

// refInst: the instance the documented resolution order selects for a field type
// (working package, then the type's own package, then the derive package).
func (p *Package) refInst(class string, t *Ty, st *Struct) string {
	ci := classInfo[class]
	sub := st.Sub()
	src := t.Src(sub)
	lazyOf := func(e *Ty) string {
		return fmt.Sprintf("lazy.Call(func() %s[%s] { return %s })", ci.TC, e.Src(sub), p.refInst(class, e, st))
	}
	switch t.K {
	case "tparam":
		return p.refInst(class, t.inst(st), st)
	case "struct":
		return p.derivedInst(class, t.Ref)
	case "leaf":
		return "zzRef" + ci.Prefix + "Leaf"
	case "myint":
		if p.OverrideMyInt && class != "clone" && class != "show" {
			return ci.Prefix + "MyInt"
		}
	case "money":
		if class == "eq" && p.OverrideMoney != "" {
			return p.OverrideMoney
		}
		if class != "clone" && class != "show" {
			return "dep." + ci.Prefix + "Money"
		}
	case "pt":
		return "dep." + ci.Prefix + "Pt()"
	case "index":
		return "zzRef" + ci.Prefix + "Index"
	case "mid":
		return "zzRef" + ci.Prefix + "Mid"
	}
	switch class {
	case "eq":
		switch t.K {
		case "string":
			return "eq.String"
		case "time":
			return "eq.Time"
		case "bytes":
			return "eq.Bytes"
		case "opt":
			return "eq.Option(" + p.refInst(class, t.Elem, st) + ")"
		case "slice":
			return "eq.Slice(" + p.refInst(class, t.Elem, st) + ")"
		case "seq":
			return "eq.Seq(" + p.refInst(class, t.Elem, st) + ")"
		case "map":
			return "eq.GoMap[string, " + t.Elem.Src(sub) + "](" + p.refInst(class, t.Elem, st) + ")"
		case "ptr":
			return "eq.Ptr(" + lazyOf(t.Elem) + ")"
		case "tuple2":
			return "eq.Tuple2(" + p.refInst(class, t.Elem, st) + ", eq.String)"
		}
		return "eq.Given[" + src + "]()"
	case "ord":
		switch t.K {
		case "time":
			return "ord.Time"
		case "opt":
			return "ord.Option(" + p.refInst(class, t.Elem, st) + ")"
		case "slice":
			return "ord.Slice(" + p.refInst(class, t.Elem, st) + ")"
		case "seq":
			return "ord.Seq(" + p.refInst(class, t.Elem, st) + ")"
		case "ptr":
			return "ord.Ptr(" + lazyOf(t.Elem) + ")"
		case "tuple2":
			return "ord.Tuple2(" + p.refInst(class, t.Elem, st) + ", ord.Given[string]())"
		}
		return "ord.Given[" + src + "]()"
	case "hash":
		switch t.K {
		case "string":
			return "hash.String"
		case "bytes":
			return "hash.Bytes"
		case "opt":
			return "hash.Option(" + p.refInst(class, t.Elem, st) + ")"
		case "slice":
			return "hash.Slice(" + p.refInst(class, t.Elem, st) + ")"
		case "seq":
			return "hash.Seq(" + p.refInst(class, t.Elem, st) + ")"
		case "ptr":
			return "hash.Ptr(" + lazyOf(t.Elem) + ")"
		case "tuple2":
			return "hash.Tuple2(" + p.refInst(class, t.Elem, st) + ", hash.String)"
		}
		return "hash.Number[" + src + "]()"
	case "monoid":
		switch t.K {
		case "string":
			return "monoid.String"
		case "mystr":
			return "monoid.Sum[MyStr]()"
		case "opt":
			return "monoid.Option(" + p.refInst(class, t.Elem, st) + ")"
		case "slice":
			return "monoid.MergeSlice[" + t.Elem.Src(sub) + "]()"
		case "seq":
			return "monoid.MergeSeq[" + t.Elem.Src(sub) + "]()"
		case "map":
			return "monoid.MergeGoMap[string, " + t.Elem.Src(sub) + "]()"
		case "tuple2":
			return "monoid.Tuple2(" + p.refInst(class, t.Elem, st) + ", monoid.String)"
		}
		return "monoid.Product[" + src + "]()"
	case "clone":
		switch t.K {
		case "opt":
			return "clone.Option(" + p.refInst(class, t.Elem, st) + ")"
		case "slice":
			return "clone.Slice(" + p.refInst(class, t.Elem, st) + ")"
		case "seq":
			return "clone.Seq(" + p.refInst(class, t.Elem, st) + ")"
		case "map":
			return "clone.GoMap(clone.Given[string](), " + p.refInst(class, t.Elem, st) + ")"
		case "ptr":
			return "clone.Ptr(" + lazyOf(t.Elem) + ")"
		}
		return "clone.Given[" + src + "]()"
	case "show":
		switch t.K {
		case "string":
			return "show.String"
		case "bool":
			return "show.Bool"
		case "time":
			return "show.Time"
		case "opt":
			return "show.Option(" + p.refInst(class, t.Elem, st) + ")"
		case "slice":
			return "show.Slice(" + p.refInst(class, t.Elem, st) + ")"
		case "seq":
			return "show.Seq(" + p.refInst(class, t.Elem, st) + ")"
		case "ptr":
			return "show.Ptr(" + lazyOf(t.Elem) + ")"
		}
		return "show.Int[" + src + "]()"
	}
	return "nil"
}

// ---------------------------------------------------------------------------------- instance expressions (C08, oracle_derive)

// DeriveClasses: the classes whose derived instances are compared with the Lean model op by op.
var DeriveClasses = map[string]bool{"eq": true, "ord": true, "hash": true, "monoid": true, "clone": true}

// DeriveSpecSexp: the declaration as the oracle reads it: field names (applicability is decided by the
// model from the name / embedded-empty flags), field types as written (type parameters by name).
func (s *Struct) DeriveSpecSexp() string {
	var sb strings.Builder
	sb.WriteString("(spec " + s.Name + " (origin " + s.Origin + ") (params")
	for _, p := range s.TParams {
		sb.WriteString(" " + p.Name)
	}
	sb.WriteString(") (fields")
	flag := func(b bool, y, n string) string {
		if b {
			return y
		}
		return n
	}
	for _, f := range s.Fields {
		sb.WriteString(" (f " + f.Name + " " + escAtom(f.Ty.Src(nil)) + " " + flag(f.Embedded, "emb", "plain") + " " + flag(f.Empty, "empty", "nonempty") + ")")
	}
	sb.WriteString("))")
	return sb.String()
}

// ptSpecSexp: dep.Pt (DepSource): `type Pt struct { x int; y string }`
// indexSpecSexp: ZzIndex (lib.go.txt)
const indexSpecSexp = "(spec ZzIndex (origin 0 0 0 0) (params) (fields (f Keys []string plain nonempty) (f byName map[string]int plain nonempty) (f Ptr *int plain nonempty) (f n int plain nonempty)))"

const midSpecSexp = "(spec ZzMid (origin 0 0 0 0) (params) (fields (f Deep ZzIndex plain nonempty) (f tag string plain nonempty)))"

const ptSpecSexp = "(spec Pt (origin 0 0 0 0) (params) (fields (f x int plain nonempty) (f y string plain nonempty)))"

func prim(name string) string { return "(prim " + escAtom(name) + ")" }

// intKindOf: the arithmetic of the integer kinds (named ints are int)
func intKindOf(k string) string {
	switch k {
	case "int8":
		return "int8"
	case "uint64":
		return "uint64"
	}
	return "int64"
}

func isIntKind(k string) bool {
	switch k {
	case "int", "int8", "int64", "uint64", "myint", "money", "dur":
		return true
	}
	return false
}

// instExpr: the instance the documented resolution order selects for a field type (working package,
// then the type's own package, then the derive package), as an expression of the Lean model
// (FpVerif.Derive.Inst).  st is the struct the type occurs in; top is the struct whose instance is
// being described: a reference to it is `self`, its own type parameters are `(tparam T)` (the
// dictionary the generic instance function receives), the parameters of a nested generic struct are
// replaced by the instances of their instantiation.
func (p *Package) instExpr(class string, t *Ty, st *Struct, top *Struct) string {
	rec := func(e *Ty) string { return p.instExpr(class, e, st, top) }
	switch t.K {
	case "tparam":
		if st == top {
			return "(tparam " + t.Name + ")"
		}
		return p.instExpr(class, t.inst(st), st, top)
	case "struct":
		if t.Ref == top {
			return "self"
		}
		return p.structInstExpr(class, t.Ref, top)
	case "myint":
		if p.OverrideMyInt && class != "clone" {
			return prim(classInfo[class].Prefix + "MyInt")
		}
	case "money":
		if class == "eq" && p.OverrideMoney != "" {
			return prim("EqMoney") // the local instance (EqMoney / EqDepMoney: a%7 == b%7)
		}
		if class != "clone" {
			return prim("dep." + classInfo[class].Prefix + "Money")
		}
	case "pt":
		if class == "eq" {
			return "(struct " + ptSpecSexp + " (insts " + prim("eq.Given[int]") + " " + prim("eq.String") + "))"
		}
	case "opt":
		return "(option " + rec(t.Elem) + ")"
	case "index":
		// ZzIndex has no declared instance: @fp.Derive(recursive=true) derives one over ALL its fields
		switch class {
		case "eq":
			return "(struct " + indexSpecSexp + " (insts (slice " + prim("eq.String") + ") (gomap " + prim("eq.Given[int]") + ") (ptr " + prim("eq.Given[int]") + ") " + prim("eq.Given[int]") + "))"
		case "clone":
			return "(struct " + indexSpecSexp + " (insts (slice " + prim("clone.Given") + ") (gomap " + prim("clone.Given") + ") (ptr " + prim("clone.Given") + ") " + prim("clone.Given") + "))"
		}
	case "mid":
		// ZzMid nests ZzIndex: the derived instance is recursive at every level
		switch class {
		case "eq":
			return "(struct " + midSpecSexp + " (insts " + rec(&Ty{K: "index"}) + " " + prim("eq.String") + "))"
		case "clone":
			return "(struct " + midSpecSexp + " (insts " + rec(&Ty{K: "index"}) + " " + prim("clone.Given") + "))"
		}
	}
	switch class {
	case "eq":
		switch t.K {
		case "string":
			return prim("eq.String")
		case "mystr":
			return prim("eq.Given[string]")
		case "time":
			return prim("eq.Time")
		case "bytes":
			return prim("eq.Bytes")
		case "bool":
			return prim("eq.Given[bool]")
		case "slice":
			return "(slice " + rec(t.Elem) + ")"
		case "seq":
			return "(seq " + rec(t.Elem) + ")"
		case "map":
			return "(gomap " + rec(t.Elem) + ")"
		case "ptr":
			return "(ptr " + rec(t.Elem) + ")"
		case "tuple2":
			return "(tuple2 " + rec(t.Elem) + " " + prim("eq.String") + ")"
		}
		if isIntKind(t.K) {
			return prim("eq.Given[int]")
		}
	case "ord":
		switch t.K {
		case "string", "mystr":
			return prim("ord.Given[string]")
		case "time":
			return prim("ord.Time")
		case "slice":
			return "(slice " + rec(t.Elem) + ")"
		case "seq":
			return "(seq " + rec(t.Elem) + ")"
		case "ptr":
			return "(ptr " + rec(t.Elem) + ")"
		case "tuple2":
			return "(tuple2 " + rec(t.Elem) + " " + prim("ord.Given[string]") + ")"
		}
		if isIntKind(t.K) {
			return prim("ord.Given[int]")
		}
	case "hash":
		switch t.K {
		case "string":
			return prim("hash.String")
		case "bytes":
			return prim("hash.Bytes")
		case "slice":
			return "(slice " + rec(t.Elem) + ")"
		case "seq":
			return "(seq " + rec(t.Elem) + ")"
		case "ptr":
			return "(ptr " + rec(t.Elem) + ")"
		case "tuple2":
			return "(tuple2 " + rec(t.Elem) + " " + prim("hash.String") + ")"
		}
		if isIntKind(t.K) {
			return prim("hash.Number")
		}
	case "monoid":
		switch t.K {
		case "string":
			return prim("monoid.String")
		case "mystr":
			return prim("monoid.Sum[string]")
		case "slice", "seq":
			return prim("monoid.Merge") // MergeSlice[T]() / MergeSeq[T](): no element instance
		case "map":
			return prim("monoid.MergeGoMap")
		case "tuple2":
			return "(tuple2 " + rec(t.Elem) + " " + prim("monoid.String") + ")"
		}
		if isIntKind(t.K) {
			return prim("monoid.Product[" + intKindOf(t.K) + "]")
		}
	case "clone":
		switch t.K {
		case "slice":
			return "(slice " + rec(t.Elem) + ")"
		case "bytes":
			return "(slice " + prim("clone.Given") + ")"
		case "seq":
			return "(seq " + rec(t.Elem) + ")"
		case "map":
			return "(gomap " + rec(t.Elem) + ")"
		case "ptr":
			return "(ptr " + rec(t.Elem) + ")"
		case "tuple2":
			return "(tuple2 " + rec(t.Elem) + " " + prim("clone.Given") + ")"
		}
		return prim("clone.Given")
	}
	return prim("unsupported:" + class + ":" + t.K)
}

var reInstHead = regexp.MustCompile(`\((prim [^()\s]+|option|seq|slice|ptr|gomap|tuple2|struct|tparam)|\bself\b`)

// instHeads counts the node kinds of an instance expression (histogram)
func instHeads(sexp string) map[string]int {
	out := map[string]int{}
	for _, m := range reInstHead.FindAllStringSubmatch(sexp, -1) {
		k := m[1]
		if k == "" {
			k = "self"
		}
		out[strings.TrimPrefix(k, "prim ")]++
	}
	return out
}

// structInstExpr: the derived instance of struct s as a component (its declaration + its components)
func (p *Package) structInstExpr(class string, s *Struct, top *Struct) string {
	parts := []string{}
	for _, i := range s.Applicable() {
		parts = append(parts, p.instExpr(class, s.Fields[i].Ty, s, top))
	}
	return "(struct " + s.DeriveSpecSexp() + " (insts " + strings.Join(parts, " ") + "))"
}

// DeriveInstsSexp: "(insts I…) (pinsts (T I)…)" of the top-level instance of s
func (p *Package) DeriveInstsSexp(class string, s *Struct) string {
	parts := []string{}
	for _, i := range s.Applicable() {
		parts = append(parts, p.instExpr(class, s.Fields[i].Ty, s, s))
	}
	pparts := []string{}
	for _, tp := range s.usedParams(class) {
		// the argument the driver passes to the generic instance function (derivedInst)
		pparts = append(pparts, "("+tp.Name+" "+p.instExpr(class, tp.InstTy, nil, s)+")")
	}
	return "(insts " + strings.Join(parts, " ") + ") (pinsts " + strings.Join(pparts, " ") + ")"
}

// ordLawful: every Ord component is a strict total order (ord.Seq / ord.Slice are not: they are the
// subject of another property, so the order LAWS are not demanded of structs that contain them;
// the field-wise composition still is)
func ordLawful(t *Ty, st *Struct, seen map[*Struct]bool) bool {
	switch t.K {
	case "slice", "seq":
		return false
	case "tparam":
		it := t.inst(st)
		if it != t {
			return ordLawful(it, st, seen)
		}
		return true
	case "struct":
		if seen[t.Ref] {
			return true
		}
		seen[t.Ref] = true
		for _, f := range t.Ref.Fields {
			if f.Applicable() && !ordLawful(f.Ty, t.Ref, seen) {
				return false
			}
		}
		return true
	}
	if t.Elem != nil {
		return ordLawful(t.Elem, st, seen)
	}
	return true
}

// ---------------------------------------------------------------------------------- driver

func q(s string) string { return strconv.Quote(s) }

func qlist(xs []string) string {
	parts := make([]string, len(xs))
	for i, x := range xs {
		parts[i] = q(x)
	}
	return "[]string{" + strings.Join(parts, ", ") + "}"
}

func (s *Struct) tT() string { return "zzT_" + s.Name }
func (s *Struct) tB() string { return "zzB_" + s.Name }
func (s *Struct) tM() string { return "zzM_" + s.Name }

func (s *Struct) fieldAccess(v string, i int) string {
	return v + "." + s.Fields[i].Name
}

// ifaceInfo: (isIface, all, impls) of the interface type at the bottom of Options
func ifaceInfo(t *Ty, st *Struct) (bool, bool) {
	t = t.inst(st)
	for t.K == "opt" {
		t = t.Elem.inst(st)
	}
	switch t.K {
	case "any":
		return true, true
	case "iface", "ifacelit", "err":
		return true, false
	}
	return false, false
}

func hasKind(ms []Meth, kind string) bool {
	for _, m := range ms {
		if m.Kind == kind {
			return true
		}
	}
	return false
}

func (s *Struct) appArgs(v string) string {
	parts := []string{}
	for _, i := range s.Applicable() {
		parts = append(parts, s.fieldAccess(v, i))
	}
	return strings.Join(parts, ", ")
}

func boolList(bs []bool) string {
	parts := make([]string, len(bs))
	for i, b := range bs {
		parts[i] = strconv.FormatBool(b)
	}
	return "[]bool{" + strings.Join(parts, ", ") + "}"
}

// DriverSource is the law-test driver of the package; it is compiled together with gombok's output.
func (p *Package) DriverSource(perStruct int) string {
	var w strings.Builder
	w.WriteString("package " + p.Name + "\n\nimport (\n")
	for _, imp := range []string{"bytes", "encoding/json", "fmt", "reflect", "time", "github.com/csgura/fp", "github.com/csgura/fp/as", "github.com/csgura/fp/lazy",
		"github.com/csgura/fp/eq", "github.com/csgura/fp/ord", "github.com/csgura/fp/hash", "github.com/csgura/fp/monoid", "github.com/csgura/fp/clone", "github.com/csgura/fp/show"} {
		w.WriteString("\t" + q(imp) + "\n")
	}
	if p.UsesDep {
		w.WriteString("\t" + q(ModName+"/dep") + "\n")
	}
	w.WriteString("\tstdtime \"time\"\n\tdp " + q(ModName+"/dep") + "\n")
	w.WriteString(")\n\n")
	w.WriteString("var _ stdtime.Duration\nvar _ dp.Money\n")
	if p.UsesDep {
		w.WriteString("var _ dep.Money\n")
	}
	w.WriteString("var _ = bytes.Equal\nvar _ = json.Marshal\nvar _ = fmt.Sprint\nvar _ = reflect.TypeOf\nvar _ time.Time\nvar _ fp.Unit\nvar _ = as.Tuple2[int, int]\nvar _ = lazy.Done[int]\n")
	w.WriteString("var _ = eq.String\nvar _ = ord.Time\nvar _ = hash.String\nvar _ = monoid.String\nvar _ = clone.HNil\nvar _ = show.String\n\n")
	for _, s := range p.Structs {
		p.emitStruct(&w, s)
	}
	// probes: constructing the instance of a struct that contains a slice of itself
	w.WriteString("// ZzProbe constructs one derived instance (run in a process of its own: it may never return).\nfunc ZzProbe(name string) {\n\tswitch name {\n")
	for _, s := range p.Structs {
		if s.RiskyRecursion() {
			for _, d := range s.Derives {
				fmt.Fprintf(&w, "\tcase %s:\n\t\t_ = %s\n", q(classInfo[d.Class].Prefix+s.Name), p.derivedInst(d.Class, s))
			}
		}
	}
	w.WriteString("\t}\n}\n\n")
	// entry point
	w.WriteString("// ZzRun runs the drivers of every struct of the package.\nfunc ZzRun(seed uint64, n int, dir string) {\n\tout := zzNewOut(dir)\n\tr := zzNewRng(seed)\n")
	for _, s := range p.Structs {
		fmt.Fprintf(&w, "\tzzDrive_%s(r, out, n)\n", s.Name)
	}
	w.WriteString("\tout.Close()\n}\n")
	_ = perStruct
	return w.String()
}

func (p *Package) emitStruct(w *strings.Builder, s *Struct) {
	T, B, M := s.tT(), s.tB(), s.tM()
	mt, mb, mm := s.MethodsT(), s.MethodsB(), s.MethodsM()
	fmt.Fprintf(w, "// ---------------------------------------------------------------- %s (%s)\n\n", s.Name, s.Shape)
	fmt.Fprintf(w, "type %s = %s%s\n", T, s.Name, s.InstArgs())
	if s.HasBuilderType() {
		fmt.Fprintf(w, "type %s = %sBuilder%s\n", B, s.Name, s.InstArgs())
	}
	if s.HasMutableType() {
		fmt.Fprintf(w, "type %s = %sMutable%s\n", M, s.Name, s.InstArgs())
	}
	fmt.Fprintf(w, "\nconst zzDecl_%s = %s\n\n", s.Name, q(fmt.Sprintf("//gombokrun seed=%s n=%s perpkg=%s samples=%s struct=%s\n", originPart(s.Origin, 0), originPart(s.Origin, 1), originPart(s.Origin, 2), originPart(s.Origin, 3), s.Name)+s.DeclWithDerives()))
	// the declaration and the resolved component instances as oracle_derive reads them (C08)
	if !s.RiskyRecursion() {
		emitted := false
		for _, d := range s.Derives {
			if DeriveClasses[d.Class] {
				if !emitted {
					fmt.Fprintf(w, "const zzDSpec_%s = %s\n", s.Name, q(s.DeriveSpecSexp()))
					emitted = true
				}
				fmt.Fprintf(w, "const zzDInsts_%s_%s = %s\n", s.Name, d.Class, q(p.DeriveInstsSexp(d.Class, s)))
			}
		}
		if emitted {
			w.WriteString("\n")
		}
	}
	// field pointers
	fmt.Fprintf(w, "func zzFP_%s(p *%s) []any {\n\treturn []any{", s.Name, T)
	for i, f := range s.Fields {
		if i > 0 {
			w.WriteString(", ")
		}
		if f.Blank() {
			w.WriteString("zzBlank")
		} else {
			w.WriteString("&p." + f.Name)
		}
	}
	w.WriteString("}\n}\n\n")
	// boxed field values
	fmt.Fprintf(w, "func zzBox_%s(p *%s) []any {\n\treturn []any{", s.Name, T)
	first := true
	for _, f := range s.Fields {
		if f.Blank() {
			continue
		}
		if !first {
			w.WriteString(", ")
		}
		first = false
		w.WriteString("p." + f.Name)
	}
	w.WriteString("}\n}\n\n")
	app := make([]bool, len(s.Fields))
	keys := []string{}
	for i, f := range s.Fields {
		app[i] = f.Applicable()
		if app[i] {
			keys = append(keys, f.Name)
		}
	}
	fmt.Fprintf(w, "var zzApp_%s = %s\nvar zzKeys_%s = %s\n\n", s.Name, boolList(app), s.Name, qlist(keys))
	// spec
	fmt.Fprintf(w, "var zzSpec_%s = zzSpecT{Name: %s, Origin: "+q(s.Origin)+", Ann: %s, UserT: %s, UserB: %s, BDef: %v, Fields: []zzFieldT{\n", s.Name, q(s.Name), qlist(s.Ann.Names()), qlist(s.UserT), qlist(s.UserB), s.BDef)
	for _, f := range s.Fields {
		isI, all := ifaceInfo(f.Ty, s)
		impls := "nil"
		if isI && !all {
			impls = "[]any{ZzImplA{}, ZzImplB{}}"
			bt := f.Ty.inst(s)
			for bt.K == "opt" {
				bt = bt.Elem.inst(s)
			}
			if bt.K == "err" {
				impls = "[]any{ZzErrA{}}"
			}
		}
		opaque := f.Ty.K == "tparam" && f.Ty.inst(s).K == "opt"
		fmt.Fprintf(w, "\t{Name: %s, Emb: %v, Empty: %v, Tag: %s, Nilable: %v, All: %v, Impls: %s, Opaque: %v},\n", q(f.Name), f.Embedded, f.Empty, q(f.Tag), f.Ty.Nilable(), all, impls, opaque)
	}
	w.WriteString("}}\n\n")
	// generator
	fmt.Fprintf(w, "func zzGen_%s(r *zzRng) %s {\n\tvar x %s\n", s.Name, T, T)
	if s.Recur {
		w.WriteString("\tr.Depth++\n\tdefer func() { r.Depth-- }()\n")
	}
	for _, f := range s.Fields {
		if f.Blank() {
			continue
		}
		line := fmt.Sprintf("\tx.%s = (%s)(r)\n", f.Name, f.Ty.GenExpr(s))
		if s.Recur && tyMentionsStruct(f.Ty) {
			line = "\tif r.Depth < 3 {\n\t" + line + "\t}\n"
		}
		w.WriteString(line)
	}
	w.WriteString("\treturn x\n}\n\n")
	// mutate one applicable field
	fmt.Fprintf(w, "func zzMutate_%s(r *zzRng, x *%s) {\n\tswitch r.Intn(%d) {\n", s.Name, T, max(1, len(keys)))
	k := 0
	for _, f := range s.Fields {
		if !f.Applicable() {
			continue
		}
		fmt.Fprintf(w, "\tcase %d:\n\t\tx.%s = (%s)(r)\n", k, f.Name, f.Ty.GenExpr(s))
		k++
	}
	w.WriteString("\t}\n}\n\n")
	// the same among the first applicable fields only: the derived Ord of a wide struct needs time
	// exponential in the number of fields that FOLLOW the first difference (every ord.TupleN level is
	// wrapped in ord.New, whose Compare evaluates the less function in both directions), so near-equal
	// values of a 20-field struct must not differ at the end
	if len(keys) > ordFrontFields {
		fmt.Fprintf(w, "func zzMutateFront_%s(r *zzRng, x *%s) {\n\tswitch r.Intn(%d) {\n", s.Name, T, ordFrontFields)
		k := 0
		for _, f := range s.Fields {
			if !f.Applicable() {
				continue
			}
			if k < ordFrontFields {
				fmt.Fprintf(w, "\tcase %d:\n\t\tx.%s = (%s)(r)\n", k, f.Name, f.Ty.GenExpr(s))
			}
			k++
		}
		w.WriteString("\t}\n}\n\n")
	}
	// regenerate every non-applicable field (values that differ only where no instance may look)
	fmt.Fprintf(w, "func zzMutateNA_%s(r *zzRng, x *%s) {\n", s.Name, T)
	for _, f := range s.Fields {
		if f.Applicable() || f.Blank() {
			continue
		}
		fmt.Fprintf(w, "\tx.%s = (%s)(r)\n", f.Name, f.Ty.GenExpr(s))
	}
	w.WriteString("}\n\n")

	// ------------------------------------------------------------ the driver
	fmt.Fprintf(w, "func zzDrive_%s(r *zzRng, out *zzOut, n int) {\n", s.Name)
	fmt.Fprintf(w, "\tdecl := zzDecl_%s\n\t_ = decl\n\tvar z %s\n\tspec := zzSpecSexp(&zzSpec_%s, zzFP_%s(&z))\n\tiz := zzIdents(zzFP_%s(&z))\n\t_ = iz\n", s.Name, T, s.Name, s.Name, s.Name)
	fmt.Fprintf(w, "\tout.Hist[%s]++\n\tout.Hist[%s]++\n\tout.Hist[%s]++\n", q("shape:"+s.Shape), q(fmt.Sprintf("fields:%02d", len(s.Fields))), q(fmt.Sprintf("applicable:%02d", s.NApp())))
	for _, a := range s.Ann.Names() {
		fmt.Fprintf(w, "\tout.Hist[%s]++\n", q("ann:"+a))
	}
	if len(s.TParams) > 0 {
		fmt.Fprintf(w, "\tout.Hist[%s]++\n", q(fmt.Sprintf("typeparams:%d", len(s.TParams))))
	}
	for _, d := range s.Derives {
		fmt.Fprintf(w, "\tout.Hist[%s]++\n", q("derive:"+d.Class))
		if DeriveClasses[d.Class] && !s.RiskyRecursion() {
			// which component instances the derived instance is built from (input distribution of C08)
			heads := instHeads(p.DeriveInstsSexp(d.Class, s))
			keys := []string{}
			for k := range heads {
				keys = append(keys, k)
			}
			sort.Strings(keys)
			for _, k := range keys {
				fmt.Fprintf(w, "\tout.Hist[%s] += %d\n", q("inst:"+k), heads[k])
			}
		}
	}
	for _, f := range s.Fields {
		vis := "private"
		switch {
		case f.Blank():
			vis = "blank"
		case strings.HasPrefix(f.Name, "_"):
			vis = "underscore"
		case f.Embedded:
			vis = "embedded"
		case f.Public():
			vis = "public"
		}
		fmt.Fprintf(w, "\tout.Hist[%s]++\n\tout.Hist[%s]++\n", q("kind:"+f.Ty.K), q("vis:"+vis))
		if f.Tag != "" {
			fmt.Fprintf(w, "\tout.Hist[\"tagged\"]++\n")
		}
	}
	tb, tm := "nil", "nil"
	if s.HasBuilderType() {
		tb = "reflect.TypeOf((*" + B + ")(nil))"
	}
	if s.HasMutableType() {
		tm = "reflect.TypeOf((*" + M + ")(nil))"
	}
	fmt.Fprintf(w, "\tout.Case(\"(methods \"+spec+\")\", func() string {\n\t\treturn \"T:\" + zzMethodNames(reflect.TypeOf((*%s)(nil))) + \"|B:\" + zzMethodNames(%s) + \"|M:\" + zzMethodNames(%s) + \"|MF:\" + zzMutableFields(%s)\n\t})\n", T, tb, tm, tm)
	fmt.Fprintf(w, "\tfor k := 0; k < n; k++ {\n\t\trb := *r // the generator state x is drawn from: drawing again from a copy gives an equal value with its own storage\n\t\t_ = rb\n\t\tx, b, c := zzGen_%s(r), zzGen_%s(r), zzGen_%s(r)\n\t\tif k == 0 {\n\t\t\tx = z\n\t\t}\n\t\tif k == 1 {\n\t\t\tb = z\n\t\t}\n", s.Name, s.Name, s.Name)
	fp := func(v string) string { return "zzFP_" + s.Name + "(&" + v + ")" }
	// maps
	if hasKind(mt, "asMap") {
		w.WriteString("\t\tm1 := x.AsMap()\n")
	} else {
		w.WriteString("\t\tm1 := map[string]any{}\n")
		for _, f := range s.Fields {
			if f.Applicable() {
				fmt.Fprintf(w, "\t\tm1[%s] = x.%s\n", q(f.Name), f.Name)
			}
		}
	}
	fmt.Fprintf(w, "\t\tm2 := zzPerturb(r, m1, zzKeys_%s, zzBox_%s(&c))\n", s.Name, s.Name)
	fmt.Fprintf(w, "\t\top := \"(eval \" + spec + \" \" + zzRecSexp(%s) + \" \" + zzRecSexp(%s) + \" \" + zzRecSexp(%s) + \" \" + zzMapSexp(m1) + \" \" + zzMapSexp(m2) + \")\"\n", fp("x"), fp("b"), fp("c"))
	w.WriteString("\t\tout.Case(op, func() string {\n\t\t\tvar sb zzSB\n")
	rec := func(v string) string { return "zzRecDisp(" + fp(v) + ")" }
	for _, m := range mt {
		switch m.Kind {
		case "getter", "getPub":
			fmt.Fprintf(w, "\t\t\tsb.Add(%s, zzDisp(zzP(x.%s())))\n", q(m.Name), m.Name)
		case "withF", "withPub":
			fmt.Fprintf(w, "\t\t\t{\n\t\t\t\ty := x.%s(c.%s)\n\t\t\t\tsb.Add(%s, %s)\n\t\t\t}\n", m.Name, s.Fields[m.I].Name, q(m.Name), rec("y"))
		case "withSome":
			f := s.Fields[m.I].Name
			fmt.Fprintf(w, "\t\t\tif c.%s.IsDefined() {\n\t\t\t\ty := x.%s(c.%s.Get())\n\t\t\t\tsb.Add(%s, %s)\n\t\t\t} else {\n\t\t\t\tsb.Add(%s, \"-\")\n\t\t\t}\n", f, m.Name, f, q(m.Name), rec("y"), q(m.Name))
		case "withNone":
			fmt.Fprintf(w, "\t\t\t{\n\t\t\t\ty := x.%s()\n\t\t\t\tsb.Add(%s, %s)\n\t\t\t}\n", m.Name, q(m.Name), rec("y"))
		case "asTuple":
			fmt.Fprintf(w, "\t\t\t{\n\t\t\t\tt := x.AsTuple()\n\t\t\t\tsb.Add(\"AsTuple\", zzTupleDisp(&t))\n\t\t\t}\n")
		case "unapply":
			vars, ptrs := []string{}, []string{}
			for j := range s.Applicable() {
				vars = append(vars, fmt.Sprintf("u%d", j))
				ptrs = append(ptrs, fmt.Sprintf("&u%d", j))
			}
			fmt.Fprintf(w, "\t\t\t{\n\t\t\t\t%s := x.Unapply()\n\t\t\t\tsb.Add(\"Unapply\", zzListDisp(%s))\n\t\t\t}\n", strings.Join(vars, ", "), strings.Join(ptrs, ", "))
		case "asMap":
			w.WriteString("\t\t\tsb.Add(\"AsMap\", zzMapDisp(x.AsMap()))\n")
		case "asLabelled":
			w.WriteString("\t\t\t{\n\t\t\t\tl := x.AsLabelled()\n\t\t\t\tsb.Add(\"AsLabelled\", zzLabelledDisp(&l))\n\t\t\t}\n")
		case "builder":
			if hasKind(mb, "build") {
				fmt.Fprintf(w, "\t\t\t{\n\t\t\t\ty := x.Builder().Build()\n\t\t\t\tsb.Add(\"Builder\", %s)\n\t\t\t}\n", rec("y"))
			}
		case "asMutable":
			fmt.Fprintf(w, "\t\t\t{\n\t\t\t\tmu := x.AsMutable()\n\t\t\t\tsb.Add(\"AsMutable\", zzStructDisp(&mu))\n")
			if hasKind(mm, "asImmutable") {
				fmt.Fprintf(w, "\t\t\t\tim := mu.AsImmutable()\n\t\t\t\tsb.Add(\"AsImmutable\", %s)\n", rec("im"))
			}
			w.WriteString("\t\t\t}\n")
		}
	}
	if hasKind(mb, "build") {
		for _, m := range mb {
			switch m.Kind {
			case "bSet":
				fmt.Fprintf(w, "\t\t\t{\n\t\t\t\ty := %s(b).%s(c.%s).Build()\n\t\t\t\tsb.Add(%s, %s)\n\t\t\t}\n", B, m.Name, s.Fields[m.I].Name, q("B."+m.Name), rec("y"))
			case "bSome":
				f := s.Fields[m.I].Name
				fmt.Fprintf(w, "\t\t\tif c.%s.IsDefined() {\n\t\t\t\ty := %s(b).%s(c.%s.Get()).Build()\n\t\t\t\tsb.Add(%s, %s)\n\t\t\t} else {\n\t\t\t\tsb.Add(%s, \"-\")\n\t\t\t}\n", f, B, m.Name, f, q("B."+m.Name), rec("y"), q("B."+m.Name))
			case "bNone":
				fmt.Fprintf(w, "\t\t\t{\n\t\t\t\ty := %s(b).%s().Build()\n\t\t\t\tsb.Add(%s, %s)\n\t\t\t}\n", B, m.Name, q("B."+m.Name), rec("y"))
			case "fromTuple":
				if s.NApp() > 0 {
					fmt.Fprintf(w, "\t\t\t{\n\t\t\t\ty := %s(b).FromTuple(as.Tuple%d(%s)).Build()\n\t\t\t\tsb.Add(\"B.FromTuple\", %s)\n\t\t\t}\n", B, s.NApp(), s.appArgs("x"), rec("y"))
				}
			case "apply":
				fmt.Fprintf(w, "\t\t\t{\n\t\t\t\ty := %s(b).Apply(%s).Build()\n\t\t\t\tsb.Add(\"B.Apply\", %s)\n\t\t\t}\n", B, s.appArgs("x"), rec("y"))
			case "fromMap":
				fmt.Fprintf(w, "\t\t\t{\n\t\t\t\ty := %s(b).FromMap(m1).Build()\n\t\t\t\tsb.Add(\"B.FromMap\", %s)\n\t\t\t\ty2 := %s(b).FromMap(m2).Build()\n\t\t\t\tsb.Add(\"B.FromMap2\", %s)\n\t\t\t}\n", B, rec("y"), B, rec("y2"))
			case "fromLabelled":
				if hasKind(mt, "asLabelled") {
					fmt.Fprintf(w, "\t\t\t{\n\t\t\t\ty := %s(b).FromLabelled(x.AsLabelled()).Build()\n\t\t\t\tsb.Add(\"B.FromLabelled\", %s)\n\t\t\t}\n", B, rec("y"))
				}
			}
		}
	}
	if s.Ann.AllArgs {
		fmt.Fprintf(w, "\t\t\t{\n\t\t\t\ty := New%s%s(%s)\n\t\t\t\tsb.Add(\"New\", %s)\n\t\t\t}\n", s.Name, s.InstArgs(), s.appArgs("x"), rec("y"))
	}
	w.WriteString("\t\t\treturn sb.String()\n\t\t})\n")

	// ------------------------------------------------------------ direct checks (C07)
	w.WriteString("\t\tix, ib, ic := zzIdents(" + fp("x") + "), zzIdents(" + fp("b") + "), zzIdents(" + fp("c") + ")\n\t\t_, _, _ = ix, ib, ic\n")
	chk := func(key, cond, what string) {
		fmt.Fprintf(w, "\t\tout.Check(%s, decl, %s, func() string { return %s })\n", q(key), cond, what)
	}
	idents := func(v string) string { return "zzIdents(" + fp(v) + ")" }
	app0 := "zzApp_" + s.Name
	for _, m := range mt {
		switch m.Kind {
		case "getter", "getPub":
			chk("C07.getter", fmt.Sprintf("zzShowI(zzP(x.%s())) == ix[%d]", m.Name, m.I), fmt.Sprintf("%s+\": got \"+zzShowI(zzP(x.%s()))+\" want \"+ix[%d]", q(m.Name), m.Name, m.I))
		case "withF", "withPub":
			fmt.Fprintf(w, "\t\t{\n\t\t\ty := x.%s(c.%s)\n", m.Name, s.Fields[m.I].Name)
			fmt.Fprintf(w, "\t\t\tout.Check(\"C07.with\", decl, zzEqS(%s, zzSet(ix, %d, ic[%d])), func() string { return %s + zzDiff(%s, zzSet(ix, %d, ic[%d])) })\n\t\t}\n", idents("y"), m.I, m.I, q(m.Name+": "), idents("y"), m.I, m.I)
		case "withSome":
			f := s.Fields[m.I].Name
			fmt.Fprintf(w, "\t\tif c.%s.IsDefined() {\n\t\t\ty := x.%s(c.%s.Get())\n\t\t\twant := zzSet(ix, %d, zzShowI(zzP(fp.Some(c.%s.Get()))))\n", f, m.Name, f, m.I, f)
			fmt.Fprintf(w, "\t\t\tout.Check(\"C07.withSome\", decl, zzEqS(%s, want), func() string { return %s + zzDiff(%s, want) })\n\t\t}\n", idents("y"), q(m.Name+": "), idents("y"))
		case "withNone":
			fmt.Fprintf(w, "\t\t{\n\t\t\ty := x.%s()\n\t\t\twant := zzSet(ix, %d, \"None\")\n", m.Name, m.I)
			fmt.Fprintf(w, "\t\t\tout.Check(\"C07.withNone\", decl, zzEqS(%s, want), func() string { return %s + zzDiff(%s, want) })\n\t\t}\n", idents("y"), q(m.Name+": "), idents("y"))
		case "asTuple":
			fmt.Fprintf(w, "\t\t{\n\t\t\tt := x.AsTuple()\n\t\t\tout.Check(\"C07.asTuple\", decl, zzEqS(zzTupleIdents(&t), zzProject(ix, %s)), func() string { return \"AsTuple: \" + zzDiff(zzTupleIdents(&t), zzProject(ix, %s)) })\n", app0, app0)
			if hasKind(mb, "fromTuple") && hasKind(mb, "build") {
				fmt.Fprintf(w, "\t\t\ty := %s(b).FromTuple(t).Build()\n\t\t\tout.Check(\"C07.tuple-roundtrip\", decl, zzEqS(%s, zzMerge(ix, ib, %s)), func() string { return \"FromTuple(AsTuple): \" + zzDiff(%s, zzMerge(ix, ib, %s)) })\n", B, idents("y"), app0, idents("y"), app0)
			}
			w.WriteString("\t\t}\n")
		case "unapply":
			if hasKind(mb, "apply") && hasKind(mb, "build") {
				fmt.Fprintf(w, "\t\t{\n\t\t\ty := %s(b).Apply(x.Unapply()).Build()\n\t\t\tout.Check(\"C07.apply-roundtrip\", decl, zzEqS(%s, zzMerge(ix, ib, %s)), func() string { return \"Apply(Unapply): \" + zzDiff(%s, zzMerge(ix, ib, %s)) })\n\t\t}\n", B, idents("y"), app0, idents("y"), app0)
			}
		case "builder":
			if hasKind(mb, "build") {
				fmt.Fprintf(w, "\t\t{\n\t\t\ty := x.Builder().Build()\n\t\t\tout.Check(\"C07.builder-roundtrip\", decl, zzEqS(%s, ix), func() string { return \"Builder().Build(): \" + zzDiff(%s, ix) })\n\t\t}\n", idents("y"), idents("y"))
			}
		case "asMutable":
			if hasKind(mm, "asImmutable") {
				fmt.Fprintf(w, "\t\t{\n\t\t\tmu := x.AsMutable()\n\t\t\tim := mu.AsImmutable()\n\t\t\tout.Check(\"C07.mutable-roundtrip\", decl, zzEqS(%s, zzMerge(ix, iz, %s)), func() string { return \"AsImmutable(AsMutable): \" + zzDiff(%s, zzMerge(ix, iz, %s)) })\n", idents("im"), app0, idents("im"), app0)
				fmt.Fprintf(w, "\t\t\tout.Check(\"C07.asMutable\", decl, zzEqS(zzStructIdents(&mu), zzMerge(ix, iz, %s)), func() string { return \"AsMutable: \" + zzDiff(zzStructIdents(&mu), zzMerge(ix, iz, %s)) })\n\t\t}\n", app0, app0)
			}
		case "asLabelled":
			names, tags := []string{}, []string{}
			for _, i := range s.Applicable() {
				names = append(names, s.Fields[i].Name)
				tags = append(tags, s.Fields[i].Tag)
			}
			fmt.Fprintf(w, "\t\t{\n\t\t\tl := x.AsLabelled()\n\t\t\twant := zzLabelWant(%s, zzProject(ix, %s), %s)\n\t\t\tout.Check(\"C07.asLabelled\", decl, zzEqS(zzLabelledIdents(&l), want), func() string { return \"AsLabelled: \" + zzDiff(zzLabelledIdents(&l), want) })\n", qlist(names), app0, qlist(tags))
			if hasKind(mb, "fromLabelled") && hasKind(mb, "build") {
				fmt.Fprintf(w, "\t\t\ty := %s(b).FromLabelled(l).Build()\n\t\t\tout.Check(\"C07.labelled-roundtrip\", decl, zzEqS(%s, zzMerge(ix, ib, %s)), func() string { return \"FromLabelled(AsLabelled): \" + zzDiff(%s, zzMerge(ix, ib, %s)) })\n", B, idents("y"), app0, idents("y"), app0)
			}
			w.WriteString("\t\t}\n")
		case "asMap":
			if hasKind(mb, "fromMap") && hasKind(mb, "build") {
				fmt.Fprintf(w, "\t\t{\n\t\t\ty := %s(z).FromMap(x.AsMap()).Build()\n\t\t\twant := zzMerge(ix, iz, zzAnd(%s, zzRecoverables(&zzSpec_"+s.Name+", %s)))\n\t\t\tout.Check(\"C07.map-roundtrip\", decl, zzEqS(%s, want), func() string { return \"FromMap(AsMap): \" + zzDiff(%s, want) })\n", B, app0, fp("x"), idents("y"), idents("y"))
				fmt.Fprintf(w, "\t\t\tout.Check(\"C07.asMap-keys\", decl, zzEqS(zzMapKeys(x.AsMap()), zzWantKeys(&zzSpec_"+s.Name+", zzKeys_%s, %s, %s)), func() string { return \"AsMap keys: \" + fmt.Sprint(zzMapKeys(x.AsMap())) })\n\t\t}\n", s.Name, app0, fp("x"))
			}
		}
	}
	if hasKind(mb, "build") {
		for _, m := range mb {
			switch m.Kind {
			case "bSet":
				fmt.Fprintf(w, "\t\t{\n\t\t\ty := %s(b).%s(c.%s).Build()\n\t\t\tout.Check(\"C07.builder-set\", decl, zzEqS(%s, zzSet(ib, %d, ic[%d])), func() string { return %s + zzDiff(%s, zzSet(ib, %d, ic[%d])) })\n\t\t}\n", B, m.Name, s.Fields[m.I].Name, idents("y"), m.I, m.I, q("Builder."+m.Name+": "), idents("y"), m.I, m.I)
			case "bSome":
				f := s.Fields[m.I].Name
				fmt.Fprintf(w, "\t\tif c.%s.IsDefined() {\n\t\t\ty := %s(b).%s(c.%s.Get()).Build()\n\t\t\twant := zzSet(ib, %d, zzShowI(zzP(fp.Some(c.%s.Get()))))\n", f, B, m.Name, f, m.I, f)
				fmt.Fprintf(w, "\t\t\tout.Check(\"C07.builder-some\", decl, zzEqS(%s, want), func() string { return %s + zzDiff(%s, want) })\n\t\t}\n", idents("y"), q("Builder."+m.Name+": "), idents("y"))
			case "bNone":
				fmt.Fprintf(w, "\t\t{\n\t\t\ty := %s(b).%s().Build()\n\t\t\twant := zzSet(ib, %d, \"None\")\n\t\t\tout.Check(\"C07.builder-none\", decl, zzEqS(%s, want), func() string { return %s + zzDiff(%s, want) })\n\t\t}\n", B, m.Name, m.I, idents("y"), q("Builder."+m.Name+": "), idents("y"))
			}
		}
	}
	// ------------------------------------------------------------ JSON (C15)
	if hasKind(mt, "marshalJSON") && hasKind(mt, "unmarshalJSON") && hasKind(mt, "asMutable") && hasKind(mm, "asImmutable") {
		p.emitJSON(w, s)
	}
	// ------------------------------------------------------------ derived instances (C08)
	if !s.RiskyRecursion() {
		for _, d := range s.Derives {
			p.emitDerive(w, s, d)
		}
	}
	w.WriteString("\t}\n}\n\n")
}

func (p *Package) emitJSON(w *strings.Builder, s *Struct) {
	T := s.tT()
	fp := func(v string) string { return "zzFP_" + s.Name + "(&" + v + ")" }
	// a nil pointer / slice / map / chan / func / interface-literal and an empty string field without a
	// json tag of its own is OMITTED from the encoding (gombok writes `json:"name,omitempty"` on the
	// Mutable twin for exactly these kinds; it writes it for Option fields too, but encoding/json never
	// omits a struct value: None is emitted as null - the tag itself is compared by the (methods …) line)
	if !contains(s.UserT, "MarshalJSON") {
		first := true
		for _, f := range s.Fields {
			if !f.Applicable() || f.Embedded || strings.Contains(f.Tag, "json") || !f.Ty.Nilable() {
				continue
			}
			if first {
				w.WriteString("\t\tif k == 0 {\n\t\t\tb0, e0 := json.Marshal(z)\n")
				first = false
			}
			fmt.Fprintf(w, "\t\t\tout.Hist[%s]++\n", q("json:omitted-when-nil:"+f.Ty.K))
			fmt.Fprintf(w, "\t\t\tout.Check(\"C15.struct-nil-field-omitted\", decl, e0 != nil || !zzJSONMember(b0, %s), func() string { return fmt.Sprintf(\"the zero value encodes as %%s: member %%q (a nil/empty %s) is not omitted\", b0, %s) })\n", q(f.Name), f.Ty.K, q(f.Name))
		}
		if !first {
			w.WriteString("\t\t}\n")
		}
	}
	fmt.Fprintf(w, "\t\tfor _, faithful := range []bool{true, false} {\n\t\t\tr.Faithful = faithful\n\t\t\txj := zzGen_%s(r)\n\t\t\tr.Faithful = false\n\t\t\tif k == 0 && faithful {\n\t\t\t\txj = z\n\t\t\t}\n", s.Name)
	w.WriteString("\t\t\tb1, e1 := json.Marshal(xj)\n\t\t\tb2, e2 := json.Marshal(xj.AsMutable())\n")
	w.WriteString("\t\t\tout.Check(\"C15.struct-marshal-is-mutable\", decl, (e1 == nil) == (e2 == nil) && (e1 != nil || bytes.Equal(b1, b2)), func() string { return fmt.Sprintf(\"value %s: struct -> %s (%v), mutable -> %s (%v)\", zzRecDisp(" + fp("xj") + "), b1, e1, b2, e2) })\n")
	if s.JSONRoundTrips() {
		fmt.Fprintf(w, "\t\t\tif faithful {\n\t\t\t\tout.Hist[\"json:roundtrip\"]++\n\t\t\t\tfor _, tgt := range []%s{z} {\n\t\t\t\t\ty := tgt\n\t\t\t\t\terr := json.Unmarshal(b1, &y)\n\t\t\t\t\tmx := xj.AsMutable()\n\t\t\t\t\tmt := tgt.AsMutable()\n\t\t\t\t\t_ = json.Unmarshal(b1, &mt)\n\t\t\t\t\twant := mx.AsImmutable()\n", T)
		// decoding into the zero target must give x (applicable fields); decoding into a dirty target gives what encoding/json gives for the Mutable twin
		fmt.Fprintf(w, "\t\t\t\t\tif zzShowI(&tgt) != zzShowI(&z) {\n\t\t\t\t\t\twant = mt.AsImmutable()\n\t\t\t\t\t}\n")
		fmt.Fprintf(w, "\t\t\t\t\tout.Check(\"C15.struct-roundtrip\", decl, err == nil && e1 == nil && zzRecDisp(%s) == zzRecDisp(%s), func() string { return fmt.Sprintf(\"x=%%s json=%%s err=%%v got=%%s want=%%s\", zzRecDisp(%s), b1, err, zzRecDisp(%s), zzRecDisp(%s)) })\n\t\t\t\t}\n", fp("y"), fp("want"), fp("xj"), fp("y"), fp("want"))
		// and want equals x itself on the applicable fields (zero target)
		fmt.Fprintf(w, "\t\t\t\ty0 := z\n\t\t\t\terr0 := json.Unmarshal(b1, &y0)\n\t\t\t\tout.Check(\"C15.struct-roundtrip-fields\", decl, err0 == nil && zzEqS(zzDisps(%s), zzMerge(zzDisps(%s), zzDisps(%s), zzApp_%s)), func() string { return fmt.Sprintf(\"x=%%s json=%%s err=%%v got=%%s\", zzRecDisp(%s), b1, err0, zzRecDisp(%s)) })\n\t\t\t}\n", fp("y0"), fp("xj"), fp("z"), s.Name, fp("xj"), fp("y0"))
	}
	// arbitrary bytes
	fmt.Fprintf(w, "\t\t\tfor g := 0; g < 3; g++ {\n\t\t\t\tgb := zzJSONGarbage(r, b1)\n\t\t\t\tif g == 0 {\n\t\t\t\t\t// well-formed JSON with ONE member of the wrong type (the decoder fails after decoding the others)\n\t\t\t\t\tif te := zzJSONTypeError(r, b1); te != nil {\n\t\t\t\t\t\tgb = te\n\t\t\t\t\t\tout.Hist[\"json:one-type-error\"]++\n\t\t\t\t\t}\n\t\t\t\t}\n\t\t\t\tfor mode := 0; mode < 3; mode++ {\n\t\t\t\t\tt := c\n\t\t\t\t\tbefore := zzShowI(&t)\n\t\t\t\t\tbeforeSh := zzShallowI(&t)\n\t\t\t\t\tvar err error\n\t\t\t\t\tpanicked := zzPanics(func() {\n\t\t\t\t\t\tswitch mode {\n\t\t\t\t\t\tcase 0:\n\t\t\t\t\t\t\terr = json.Unmarshal(gb, &t)\n\t\t\t\t\t\tcase 1:\n\t\t\t\t\t\t\terr = t.UnmarshalJSON(gb)\n\t\t\t\t\t\tcase 2:\n\t\t\t\t\t\t\terr = (*%s)(nil).UnmarshalJSON(gb)\n\t\t\t\t\t\t\tif err == nil {\n\t\t\t\t\t\t\t\tpanic(\"nil receiver: no error\")\n\t\t\t\t\t\t\t}\n\t\t\t\t\t\t}\n\t\t\t\t\t})\n", T)
	w.WriteString("\t\t\t\t\tout.Check(\"C15.struct-unmarshal-panics\", decl, panicked == \"\", func() string { return fmt.Sprintf(\"input %q mode %d: %s\", gb, mode, panicked) })\n")
	// an error must leave the target alone.  Two grades: the target's OWN memory (scalar fields, the
	// pointer / slice header / map reference it holds) - and what is reachable through them (the generated
	// UnmarshalJSON decodes into a shallow copy, so a failing decode can write through shared storage).
	w.WriteString("\t\t\t\t\tout.Check(\"C15.struct-unmarshal-error-keeps-target\", decl, err == nil || zzShallowI(&t) == beforeSh, func() string { return fmt.Sprintf(\"input %q mode %d err %v: the target's own fields changed: %s -> %s\", gb, mode, err, before, zzShowI(&t)) })\n")
	w.WriteString("\t\t\t\t\tout.Check(\"C15.struct-unmarshal-error-writes-shared-storage\", decl, err == nil || zzShallowI(&t) != beforeSh || zzShowI(&t) == before, func() string { return fmt.Sprintf(\"input %q mode %d err %v: storage reachable from the target changed: %s -> %s\", gb, mode, err, before, zzShowI(&t)) })\n")
	// unmarshal = decode into Mutable then AsImmutable
	// (evaluated on a zero target: whether keys absent from the input keep the target's old values is not part of C15)
	w.WriteString("\t\t\t\t\tif mode == 0 {\n\t\t\t\t\t\tt = z\n\t\t\t\t\t\terr = json.Unmarshal(gb, &t)\n\t\t\t\t\t\tmu := z.AsMutable()\n\t\t\t\t\t\terr2 := json.Unmarshal(gb, &mu)\n\t\t\t\t\t\tim := mu.AsImmutable()\n\t\t\t\t\t\tout.Check(\"C15.struct-unmarshal-is-mutable\", decl, (err == nil) == (err2 == nil) && (err != nil || zzShowI0(&t) == zzShowI0(&im)), func() string { return fmt.Sprintf(\"input %q: struct err %v value %s, via mutable err %v value %s\", gb, err, zzShowI0(&t), err2, zzShowI0(&im)) })\n\t\t\t\t\t}\n")
	w.WriteString("\t\t\t\t}\n\t\t\t}\n\t\t}\n")
}

// ordFrontFields: near-equal values handed to a derived Ord differ within the first so many fields
const ordFrontFields = 10

func (p *Package) emitDerive(w *strings.Builder, s *Struct, d Derive) {
	T := s.tT()
	ins := p.derivedInst(d.Class, s)
	app := s.Applicable()
	mut := "zzMutate_" + s.Name
	if d.Class == "ord" && len(app) > ordFrontFields {
		mut = "zzMutateFront_" + s.Name
	}
	fmt.Fprintf(w, "\t\tif pn := zzPanics(func() { // derived %s\n\t\t\tins := %s\n\t\t\tvar a1, a2, a3 %s\n\t\t\tswitch k %% 6 {\n\t\t\tcase 0:\n\t\t\t\ta1, a2, a3 = x, b, c\n\t\t\tcase 1:\n\t\t\t\ta1, a2, a3 = x, x, x\n\t\t\t\t%s(r, &a2)\n\t\t\t\t%s(r, &a3)\n\t\t\tcase 2:\n\t\t\t\ta1, a2, a3 = x, x, b\n\t\t\t\t%s(r, &a3)\n\t\t\tcase 3:\n\t\t\t\ta1, a2, a3 = x, b, b\n\t\t\t\t%s(r, &a2)\n\t\t\tcase 4: // a2 differs from a1 only in the non-applicable fields, a3 from a2 in one applicable field\n\t\t\t\ta1, a2, a3 = x, x, x\n\t\t\t\tzzMutateNA_%s(r, &a2)\n\t\t\t\ta3 = a2\n\t\t\t\t%s(r, &a3)\n\t\t\tdefault: // a2 is a twin of a1: equal content, no storage in common (pointers, slices, maps are re-allocated)\n\t\t\t\trt := rb\n\t\t\t\ta1, a2 = x, zzGen_%s(&rt)\n\t\t\t\tif k == 0 {\n\t\t\t\t\ta2 = z\n\t\t\t\t}\n\t\t\t\ta3 = a2\n\t\t\t\t%s(r, &a3)\n\t\t\t}\n\t\t\t_, _, _ = a1, a2, a3\n", d.Class, ins, T, mut, mut, mut, mut, s.Name, mut, s.Name, mut)
	fmt.Fprintf(w, "\t\t\tin := func() string { return fmt.Sprintf(\"a1=%%s a2=%%s a3=%%s\", zzShowI0(&a1), zzShowI0(&a2), zzShowI0(&a3)) }\n\t\t\t_ = in\n")
	p.emitDeriveOp(w, s, d)
	p.emitMapNearMiss(w, s, d)
	ref := func(i int) string { return p.refInst(d.Class, s.Fields[i].Ty, s) }
	switch d.Class {
	case "eq", "hash", "ord":
		// reference equality: conjunction of the field equalities
		w.WriteString("\t\t\trefEq := func(a, b " + T + ") bool {\n\t\t\t\treturn true")
		for _, i := range app {
			fmt.Fprintf(w, " &&\n\t\t\t\t\t(%s).Eqv(a.%s, b.%s)", ref(i), s.Fields[i].Name, s.Fields[i].Name)
		}
		w.WriteString("\n\t\t\t}\n")
		key := "C08." + d.Class
		w.WriteString("\t\t\tfor _, pr := range [][2]" + T + "{{a1, a2}, {a2, a3}, {a1, a3}, {a1, a1}, {a2, a1}} {\n")
		fmt.Fprintf(w, "\t\t\t\tout.Check(%s, decl, ins.Eqv(pr[0], pr[1]) == refEq(pr[0], pr[1]), func() string { return fmt.Sprintf(\"Eqv(%%s, %%s) = %%v, conjunction of field equalities = %%v\", zzShowI0(&pr[0]), zzShowI0(&pr[1]), ins.Eqv(pr[0], pr[1]), refEq(pr[0], pr[1])) })\n", q(key+".eq-fieldwise"))
		if d.Class == "hash" {
			fmt.Fprintf(w, "\t\t\t\tout.Check(%s, decl, !ins.Eqv(pr[0], pr[1]) || ins.Hash(pr[0]) == ins.Hash(pr[1]), func() string { return fmt.Sprintf(\"Eqv(%%s, %%s) but hashes %%d %%d\", zzShowI0(&pr[0]), zzShowI0(&pr[1]), ins.Hash(pr[0]), ins.Hash(pr[1])) })\n", q(key+".hash-agrees"))
		}
		w.WriteString("\t\t\t}\n")
		fmt.Fprintf(w, "\t\t\tout.Check(%s, decl, ins.Eqv(a1, a1) && ins.Eqv(a1, a2) == ins.Eqv(a2, a1) && (!(ins.Eqv(a1, a2) && ins.Eqv(a2, a3)) || ins.Eqv(a1, a3)), in)\n", q(key+".eq-laws"))
		if d.Class == "ord" {
			w.WriteString("\t\t\trefLess := func(a, b " + T + ") bool {\n")
			for _, i := range app {
				f := s.Fields[i].Name
				fmt.Fprintf(w, "\t\t\t\tif (%s).Less(a.%s, b.%s) {\n\t\t\t\t\treturn true\n\t\t\t\t}\n\t\t\t\tif (%s).Less(b.%s, a.%s) {\n\t\t\t\t\treturn false\n\t\t\t\t}\n", ref(i), f, f, ref(i), f, f)
			}
			w.WriteString("\t\t\t\treturn false\n\t\t\t}\n")
			w.WriteString("\t\t\tfor _, pr := range [][2]" + T + "{{a1, a2}, {a2, a1}, {a2, a3}, {a3, a2}, {a1, a3}, {a1, a1}} {\n")
			fmt.Fprintf(w, "\t\t\t\tout.Check(\"C08.ord.lexicographic\", decl, ins.Less(pr[0], pr[1]) == refLess(pr[0], pr[1]), func() string { return fmt.Sprintf(\"Less(%%s, %%s) = %%v, lexicographic order of the fields = %%v\", zzShowI0(&pr[0]), zzShowI0(&pr[1]), ins.Less(pr[0], pr[1]), refLess(pr[0], pr[1])) })\n\t\t\t}\n")
			lawful := true
			for _, i := range app {
				if !ordLawful(s.Fields[i].Ty, s, map[*Struct]bool{s: true}) {
					lawful = false
				}
			}
			if lawful {
				w.WriteString("\t\t\tout.Hist[\"ord:laws-checked\"]++\n")
				w.WriteString("\t\t\tout.Check(\"C08.ord.laws\", decl, !ins.Less(a1, a1) && !(ins.Less(a1, a2) && ins.Less(a2, a1)) && (!(ins.Less(a1, a2) && ins.Less(a2, a3)) || ins.Less(a1, a3)) && (ins.Less(a1, a2) || ins.Less(a2, a1) || ins.Eqv(a1, a2)) && !(ins.Eqv(a1, a2) && ins.Less(a1, a2)), in)\n")
			}
		}
	case "monoid":
		w.WriteString("\t\t\tzzNormNil = true\n\t\t\te := ins.Empty()\n\t\t\tab := ins.Combine(a1, a2)\n")
		for _, i := range app {
			f := s.Fields[i].Name
			fmt.Fprintf(w, "\t\t\tout.Check(\"C08.monoid.fieldwise\", decl, zzShowI0(zzP(ab.%s)) == zzShowI0(zzP((%s).Combine(a1.%s, a2.%s))) && zzShowI0(zzP(e.%s)) == zzShowI0(zzP((%s).Empty())), func() string { return %s + in() + \" combine=\" + zzShowI0(&ab) + \" empty=\" + zzShowI0(&e) })\n", f, ref(i), f, f, f, ref(i), q("field "+f+": "))
		}
		fmt.Fprintf(w, "\t\t\tl, rr := ins.Combine(ins.Combine(a1, a2), a3), ins.Combine(a1, ins.Combine(a2, a3))\n\t\t\tout.Check(\"C08.monoid.assoc\", decl, zzShowI0(&l) == zzShowI0(&rr), func() string { return in() + \" (ab)c=\" + zzShowI0(&l) + \" a(bc)=\" + zzShowI0(&rr) })\n")
		fmt.Fprintf(w, "\t\t\tle, re := ins.Combine(e, a1), ins.Combine(a1, e)\n\t\t\twantI := zzMerge(zzShows0(zzFP_%s(&a1)), zzShows0(zzFP_%s(&z)), zzApp_%s)\n\t\t\tout.Check(\"C08.monoid.identity\", decl, zzEqS(zzShows0(zzFP_%s(&le)), wantI) && zzEqS(zzShows0(zzFP_%s(&re)), wantI), func() string { return in() + \" e+a=\" + zzShowI0(&le) + \" a+e=\" + zzShowI0(&re) })\n", s.Name, s.Name, s.Name, s.Name, s.Name)
		w.WriteString("\t\t\tzzNormNil = false\n")
	case "clone":
		fmt.Fprintf(w, "\t\t\tcl := ins.Clone(a1)\n\t\t\tzzNormNil = true\n\t\t\tout.Check(\"C08.clone.equal\", decl, zzEqS(zzShows0(zzFP_%s(&cl)), zzMerge(zzShows0(zzFP_%s(&a1)), zzShows0(zzFP_%s(&z)), zzApp_%s)), func() string { return \"clone of \" + zzShowI0(&a1) + \" = \" + zzShowI0(&cl) })\n\t\t\tzzNormNil = false\n", s.Name, s.Name, s.Name, s.Name)
		fmt.Fprintf(w, "\t\t\tsh := zzShared(&a1, &cl)\n\t\t\tout.Check(\"C08.clone.alias\"+zzAliasKind(sh), decl, len(sh) == 0, func() string { return \"clone shares mutable storage with the original at \" + fmt.Sprint(sh) + \" value \" + zzShowI(&a1) })\n")
	case "show":
		w.WriteString("\t\t\tpn := zzPanics(func() { _ = ins.Show(a1) })\n\t\t\tout.Check(\"C08.show.panics\", decl, pn == \"\", func() string { return pn + \" \" + in() })\n")
	}
	fmt.Fprintf(w, "\t\t}); pn != \"\" {\n\t\t\tzzNormNil = false\n\t\t\tout.Check(%s, decl, false, func() string { return pn })\n\t\t}\n", q("C08."+d.Class+".panics"))
}

// emitMapNearMiss: for a derived Eq over a struct with a Go map field, two values whose maps have the
// SAME length but DIFFERENT key sets, the entry missing on the other side holding the zero value
// (`b[k]` without comma-ok reads a zero there): Eqv must be false both ways.
func (p *Package) emitMapNearMiss(w *strings.Builder, s *Struct, d Derive) {
	if d.Class != "eq" {
		return
	}
	for _, i := range s.Applicable() {
		f := s.Fields[i]
		if f.Ty.K != "map" {
			continue
		}
		app := "zzApp_" + s.Name
		dv := func(v string) string { return "zzDVRec(zzFP_" + s.Name + "(&" + v + "), " + app + ")" }
		fmt.Fprintf(w, "\t\t\t{\n\t\t\t\tn1, n2 := a1, a1\n\t\t\t\tn1.%s, n2.%s = zzMapNear(r, a1.%s, %s)\n\t\t\t\tn3 := n1\n", f.Name, f.Name, f.Name, f.Ty.Elem.GenExpr(s))
		w.WriteString("\t\t\t\tout.Hist[\"deriveop:eq-map-near-miss\"]++\n")
		fmt.Fprintf(w, "\t\t\t\tout.Case(\"(derive eq \"+zzDSpec_%s+\" \"+zzDInsts_%s_eq+\" \"+%s+\" \"+%s+\" \"+%s+\")\", func() string {\n", s.Name, s.Name, dv("n1"), dv("n2"), dv("n3"))
		w.WriteString("\t\t\t\t\treturn \"xy=\" + zzTF(ins.Eqv(n1, n2)) + \" yx=\" + zzTF(ins.Eqv(n2, n1)) + \" yz=\" + zzTF(ins.Eqv(n2, n3)) + \" xz=\" + zzTF(ins.Eqv(n1, n3)) + \" xx=\" + zzTF(ins.Eqv(n1, n1))\n\t\t\t\t})\n")
		w.WriteString("\t\t\t\tout.Check(\"C08.eq.map-key-sets\", decl, !ins.Eqv(n1, n2) && !ins.Eqv(n2, n1), func() string { return fmt.Sprintf(\"maps of equal length with different key sets: Eqv(%s, %s) = %v, Eqv(reversed) = %v\", zzShowI0(&n1), zzShowI0(&n2), ins.Eqv(n1, n2), ins.Eqv(n2, n1)) })\n\t\t\t}\n")
		return
	}
}

// emitDeriveOp: the `(derive CLASS SPEC INSTS PINSTS …)` operation line of oracle_derive and the
// implementation's answer computed with the REAL generated instance `ins` on the triple a1, a2, a3.
func (p *Package) emitDeriveOp(w *strings.Builder, s *Struct, d Derive) {
	if !DeriveClasses[d.Class] {
		return
	}
	app := "zzApp_" + s.Name
	dv := func(v string) string { return "zzDVRec(zzFP_" + s.Name + "(&" + v + "), " + app + ")" }
	head := fmt.Sprintf("\"(derive %s \" + zzDSpec_%s + \" \" + zzDInsts_%s_%s + \" \"", d.Class, s.Name, s.Name, d.Class)
	fmt.Fprintf(w, "\t\t\tout.Hist[%s]++\n", q("deriveop:"+d.Class))
	switch d.Class {
	case "eq":
		fmt.Fprintf(w, "\t\t\tout.Case(%s+%s+\" \"+%s+\" \"+%s+\")\", func() string {\n", head, dv("a1"), dv("a2"), dv("a3"))
		w.WriteString("\t\t\t\treturn \"xy=\" + zzTF(ins.Eqv(a1, a2)) + \" yx=\" + zzTF(ins.Eqv(a2, a1)) + \" yz=\" + zzTF(ins.Eqv(a2, a3)) + \" xz=\" + zzTF(ins.Eqv(a1, a3)) + \" xx=\" + zzTF(ins.Eqv(a1, a1))\n\t\t\t})\n")
	case "ord":
		fmt.Fprintf(w, "\t\t\tout.Case(%s+%s+\" \"+%s+\" \"+%s+\")\", func() string {\n", head, dv("a1"), dv("a2"), dv("a3"))
		w.WriteString("\t\t\t\treturn \"eqv:xy=\" + zzTF(ins.Eqv(a1, a2)) + \" yz=\" + zzTF(ins.Eqv(a2, a3)) + \" xx=\" + zzTF(ins.Eqv(a1, a1)) +\n")
		w.WriteString("\t\t\t\t\t\" less:xy=\" + zzTF(ins.Less(a1, a2)) + \" yx=\" + zzTF(ins.Less(a2, a1)) + \" yz=\" + zzTF(ins.Less(a2, a3)) + \" zy=\" + zzTF(ins.Less(a3, a2)) +\n")
		w.WriteString("\t\t\t\t\t\" xz=\" + zzTF(ins.Less(a1, a3)) + \" zx=\" + zzTF(ins.Less(a3, a1)) + \" xx=\" + zzTF(ins.Less(a1, a1))\n\t\t\t})\n")
	case "hash":
		fmt.Fprintf(w, "\t\t\tout.Case(%s+%s+\" \"+%s+\" \"+%s+\")\", func() string {\n", head, dv("a1"), dv("a2"), dv("a3"))
		w.WriteString("\t\t\t\treturn \"eqv:xy=\" + zzTF(ins.Eqv(a1, a2)) + \" yz=\" + zzTF(ins.Eqv(a2, a3)) + fmt.Sprintf(\" hash:x=%d y=%d z=%d\", ins.Hash(a1), ins.Hash(a2), ins.Hash(a3))\n\t\t\t})\n")
	case "monoid":
		fmt.Fprintf(w, "\t\t\tout.Case(%s+%s+\" \"+%s+\" \"+%s+\" \"+%s+\")\", func() string {\n", head, dv("z"), dv("a1"), dv("a2"), dv("a3"))
		w.WriteString("\t\t\t\tme := ins.Empty()\n\t\t\t\tmxy := ins.Combine(a1, a2)\n\t\t\t\tml := ins.Combine(mxy, a3)\n\t\t\t\tmr := ins.Combine(a1, ins.Combine(a2, a3))\n\t\t\t\tmex := ins.Combine(me, a1)\n\t\t\t\tmxe := ins.Combine(a1, me)\n")
		fmt.Fprintf(w, "\t\t\t\treturn \"empty=\" + %s + \" xy=\" + %s + \" xy_z=\" + %s + \" x_yz=\" + %s + \" ex=\" + %s + \" xe=\" + %s\n\t\t\t})\n", dv("me"), dv("mxy"), dv("ml"), dv("mr"), dv("mex"), dv("mxe"))
	case "clone":
		hv := func(v, tab string) string {
			return "zzHVRec(zzFP_" + s.Name + "(&" + v + "), " + app + ", " + tab + ")"
		}
		fmt.Fprintf(w, "\t\t\ttab := zzNewAddrTab()\n\t\t\txs := %s\n", hv("a1", "tab"))
		fmt.Fprintf(w, "\t\t\tout.Case(%s+%s+\" \"+xs+\")\", func() string {\n", head, hv("z", "zzNewAddrTab()"))
		fmt.Fprintf(w, "\t\t\t\tdcl := ins.Clone(a1)\n\t\t\t\ttab.out = true\n\t\t\t\treturn \"clone=\" + %s\n\t\t\t})\n", hv("dcl", "tab"))
	}
}

func max(a, b int) int {
	if a > b {
		return a
	}
	return b
}

// MainSource: the tiny main package that runs the driver of one scratch package.
func (p *Package) MainSource() string {
	return fmt.Sprintf(`package main

import (
	"os"
	"runtime/debug"
	"strconv"

	"%s/%s"
)

func main() {
	if os.Args[1] == "probe" {
		debug.SetMaxStack(32 << 20)
		%s.ZzProbe(os.Args[2])
		return
	}
	seed, _ := strconv.ParseUint(os.Args[1], 10, 64)
	n, _ := strconv.Atoi(os.Args[2])
	%s.ZzRun(seed, n, os.Args[3])
}
`, ModName, p.Name, p.Name, p.Name)
}

func originPart(o string, i int) string {
	parts := strings.Fields(o)
	if i < len(parts) {
		return parts[i]
	}
	return "0"
}

// InstanceName: the name gombok gives the derived instance
func InstanceName(class string, s *Struct) string { return classInfo[class].Prefix + s.Name }
