// Package gombokgen generates scratch Go packages (struct declarations annotated for gombok) from a
// grammar, together with a law-test driver for each package. See cmd/gombokrun for the pipeline.
package gombokgen

import (
	"fmt"
	"sort"
	"strings"
)

// ---------------------------------------------------------------------------------- types of fields

// Ty is a field type of the grammar.
type Ty struct {
	K     string // int int8 int64 uint64 bool string myint mystr time dur bytes ptr slice seq array map func chan any iface ifacelit opt tparam struct tuple2 money amoney pt index mid
	Elem  *Ty
	Name  string   // tparam: parameter name; struct: struct name
	TArgs []string // struct: instantiation arguments (concrete source), empty for non-generic
	Ref   *Struct  // struct: the referenced struct
}

func T(k string) *Ty           { return &Ty{K: k} }
func TE(k string, e *Ty) *Ty   { return &Ty{K: k, Elem: e} }
func TParamTy(name string) *Ty { return &Ty{K: "tparam", Name: name} }
func (t *Ty) IsOpt() bool      { return t.K == "opt" }
func (t *Ty) String() string   { return t.Src(nil) }
func (t *Ty) clone() *Ty       { c := *t; return &c }
func structTy(s *Struct, targs []string) *Ty {
	return &Ty{K: "struct", Name: s.Name, TArgs: targs, Ref: s}
}

var basicSrc = map[string]string{
	"int": "int", "int8": "int8", "int64": "int64", "uint64": "uint64", "bool": "bool", "string": "string",
	"myint": "MyInt", "mystr": "MyStr", "time": "time.Time", "bytes": "[]byte", "any": "any", "iface": "ZzIface",
	"ifacelit": "interface{ ZzFoo() string }", "func": "func(int) int", "chan": "chan int",
	// the predeclared interface `error` (a *types.Named of the universe scope: its object has NO package) and directional channels
	"err": "error", "chanr": "<-chan int", "chans": "chan<- int",
	"money": "dep.Money", "pt": "dep.Pt",
	// types that reach the declaration through an ALIASED import (`stdtime "time"`, `dp "scratch/dep"`)
	"dur": "stdtime.Duration", "amoney": "dp.Money",
	// a named struct without annotations or declared instances, exported and unexported fields (lib.go.txt)
	"index": "ZzIndex",
	// a named struct without annotations that nests ZzIndex (lib.go.txt)
	"mid": "ZzMid",
}

// Src is the Go source of the type; sub substitutes type parameters (nil: keep their names).
func (t *Ty) Src(sub map[string]string) string {
	if s, ok := basicSrc[t.K]; ok {
		return s
	}
	switch t.K {
	case "emb":
		return t.Name
	case "ptr":
		return "*" + t.Elem.Src(sub)
	case "slice":
		return "[]" + t.Elem.Src(sub)
	case "seq":
		return "fp.Seq[" + t.Elem.Src(sub) + "]"
	case "array":
		return "[2]" + t.Elem.Src(sub)
	case "map":
		return "map[string]" + t.Elem.Src(sub)
	case "opt":
		return "fp.Option[" + t.Elem.Src(sub) + "]"
	case "tuple2":
		return "fp.Tuple2[" + t.Elem.Src(sub) + ", string]"
	case "tparam":
		if sub != nil {
			if s, ok := sub[t.Name]; ok {
				return s
			}
		}
		return t.Name
	case "struct":
		if len(t.TArgs) > 0 {
			return t.Name + "[" + strings.Join(t.TArgs, ", ") + "]"
		}
		return t.Name
	}
	panic("Src: " + t.K)
}

// Uses reports the imports the type needs.
func (t *Ty) Uses(set map[string]bool) {
	switch t.K {
	case "time":
		set["time"] = true
	case "seq", "opt", "tuple2":
		set["fp"] = true
	case "money", "pt":
		set["dep"] = true
	case "dur":
		set["stdtime"] = true
	case "amoney":
		set["dp"] = true
	}
	if t.Elem != nil {
		t.Elem.Uses(set)
	}
}

// Nilable mirrors metafp.TypeInfo.IsNilable on the DECLARED type (go/types view: a named type, a
// type parameter and the alias `any` are not nilable; the basic type string is).
func (t *Ty) Nilable() bool {
	switch t.K {
	case "ptr", "slice", "bytes", "map", "chan", "chanr", "chans", "func", "ifacelit", "string":
		return true
	case "emb":
		return strings.HasPrefix(t.Name, "*")
	}
	return false
}

// instKind resolves a type parameter to the kind of its instantiation.
func (t *Ty) inst(st *Struct) *Ty {
	if t.K == "tparam" && st != nil {
		for _, p := range st.TParams {
			if p.Name == t.Name {
				return p.InstTy
			}
		}
	}
	return t
}

// IsIface: the instantiated static type is an interface type.
func (t *Ty) IsIface(st *Struct) bool {
	k := t.inst(st).K
	return k == "any" || k == "iface" || k == "ifacelit" || k == "err"
}

// GenExpr is a Go expression of type func(*zzRng) <Src(sub)>.
func (t *Ty) GenExpr(st *Struct) string {
	sub := st.Sub()
	switch t.K {
	case "int":
		return "zzInt"
	case "int8":
		return "zzInt8"
	case "int64":
		return "zzInt64"
	case "uint64":
		return "zzUint64"
	case "bool":
		return "zzBool"
	case "string":
		return "zzStr"
	case "myint":
		return "func(r *zzRng) MyInt { return MyInt(zzInt(r)) }"
	case "mystr":
		return "func(r *zzRng) MyStr { return MyStr(zzStr(r)) }"
	case "money":
		return "func(r *zzRng) dep.Money { return dep.Money(r.Intn(1000)) }"
	case "pt":
		return "func(r *zzRng) dep.Pt { return dep.NewPt(zzInt(r), zzStr(r)) }"
	case "time":
		return "zzTime"
	case "dur":
		return "func(r *zzRng) stdtime.Duration { return stdtime.Duration(zzInt64(r)) }"
	case "amoney":
		return "func(r *zzRng) dp.Money { return dp.Money(r.Intn(1000)) }"
	case "index":
		return "zzGenIndex"
	case "mid":
		return "zzGenMid"
	case "bytes":
		return "zzBytes"
	case "any":
		return "zzAny"
	case "iface":
		return "zzIfaceV"
	case "ifacelit":
		return "func(r *zzRng) interface{ ZzFoo() string } { return zzIfaceV(r) }"
	case "func":
		return "zzFuncII"
	case "chan":
		return "zzChanI"
	case "chanr":
		return "func(r *zzRng) <-chan int { return zzChanI(r) }"
	case "chans":
		return "func(r *zzRng) chan<- int { return zzChanI(r) }"
	case "err":
		return "zzErrV"
	case "ptr":
		return "zzPtrOf(" + t.Elem.GenExpr(st) + ")"
	case "slice":
		return "zzSliceOf(" + t.Elem.GenExpr(st) + ")"
	case "seq":
		return "zzSeqOf(" + t.Elem.GenExpr(st) + ")"
	case "opt":
		return "zzOptOf(" + t.Elem.GenExpr(st) + ")"
	case "map":
		return "zzMapOf(zzStr, " + t.Elem.GenExpr(st) + ")"
	case "array":
		e := t.Elem.GenExpr(st)
		return fmt.Sprintf("func(r *zzRng) %s { return %s{(%s)(r), (%s)(r)} }", t.Src(sub), t.Src(sub), e, e)
	case "tuple2":
		return fmt.Sprintf("func(r *zzRng) %s { return %s{I1: (%s)(r), I2: zzStr(r)} }", t.Src(sub), t.Src(sub), t.Elem.GenExpr(st))
	case "tparam":
		return t.inst(st).GenExpr(st)
	case "struct":
		return "zzGen_" + t.Name
	case "emb":
		switch t.Name {
		case "ZzEmb":
			return "func(r *zzRng) ZzEmb { return ZzEmb{Y: zzInt(r)} }"
		case "*ZzEmb":
			return "zzPtrOf(func(r *zzRng) ZzEmb { return ZzEmb{Y: zzInt(r)} })"
		case "zzPriv":
			return "func(r *zzRng) zzPriv { return zzPriv{X: zzInt(r)} }"
		}
		return "func(r *zzRng) " + t.Name + " { return " + t.Name + "{} }"
	}
	panic("GenExpr: " + t.K)
}

// ---------------------------------------------------------------------------------- struct declarations

type Field struct {
	// JoinNext: this field and the next one are declared together (`a, b T`): same type, no tags, neither embedded
	JoinNext bool
	Name     string
	Ty       *Ty
	Tag      string
	Embedded bool
	Empty    bool // embedded struct type without fields
}

func isLowerFirst(s string) bool {
	if s == "" {
		return false
	}
	c := s[0]
	return c >= 'a' && c <= 'z'
}

func (f *Field) Private() bool { return isLowerFirst(f.Name) }
func (f *Field) Public() bool  { return !isLowerFirst(f.Name) }
func (f *Field) Applicable() bool {
	return !(strings.HasPrefix(f.Name, "_") || (f.Embedded && f.Empty))
}
func (f *Field) Blank() bool { return f.Name == "_" }

func PublicName(s string) string {
	if s == "" {
		return ""
	}
	c := s[0]
	if c >= 'a' && c <= 'z' {
		c = c - 'a' + 'A'
	}
	return string(c) + s[1:]
}

type TParam struct {
	Name       string
	Constraint string
	Inst       string // concrete source used by the driver
	InstTy     *Ty
}

type Ann struct {
	Value, Json, GenLabelled, Getter, With, Builder, GetterPub, WithPub, AllArgs bool
}

func (a Ann) Names() []string {
	out := []string{}
	add := func(b bool, n string) {
		if b {
			out = append(out, n)
		}
	}
	add(a.Value, "value")
	add(a.Json, "json")
	add(a.GenLabelled, "genlabelled")
	add(a.Getter, "getter")
	add(a.With, "with")
	add(a.Builder, "builder")
	add(a.GetterPub, "getterpub")
	add(a.WithPub, "withpub")
	add(a.AllArgs, "allargs")
	return out
}

func (a Ann) Comment() string {
	out := ""
	add := func(b bool, n string) {
		if b {
			out += "// " + n + "\n"
		}
	}
	add(a.Value, "@fp.Value")
	add(a.Json, "@fp.Json")
	add(a.GenLabelled, "@fp.GenLabelled")
	add(a.Getter, "@fp.Getter")
	add(a.With, "@fp.With")
	add(a.Builder, "@fp.Builder")
	add(a.GetterPub, "@fp.GetterPubField")
	add(a.WithPub, "@fp.WithPubField")
	add(a.AllArgs, "@fp.AllArgsConstructor")
	return out
}

// Derive is one `// @fp.Derive var _ <pkg>.Derives[...]` directive.
type Derive struct {
	Class     string // eq ord hash monoid clone show
	Recursive bool
}

type Struct struct {
	Name    string
	TParams []TParam
	Fields  []Field
	Ann     Ann
	UserT   []string // user-written methods on T (source emitted by the generator)
	UserB   []string
	BDef    bool
	UserSrc string // the source of the user-written methods/types
	Derives []Derive
	Shape   string // grammar production that made it (histogram)
	Plain   bool   // no gombok annotation at all (derive-only struct with public fields)
	Recur   bool   // refers to itself through a pointer / slice
	Phantom bool   // generic with a type parameter no field uses, the others used in reversed order
	Origin  string // "seed n perpkg samples" of the run that generated it (replay)
}

func (s *Struct) Sub() map[string]string {
	m := map[string]string{}
	for _, p := range s.TParams {
		m[p.Name] = p.Inst
	}
	return m
}

// TypeParamDecl: "[T any, K comparable]"
func (s *Struct) TypeParamDecl() string {
	if len(s.TParams) == 0 {
		return ""
	}
	parts := []string{}
	for _, p := range s.TParams {
		parts = append(parts, p.Name+" "+p.Constraint)
	}
	return "[" + strings.Join(parts, ", ") + "]"
}

// TypeParamUse: "[T, K]"
func (s *Struct) TypeParamUse() string {
	if len(s.TParams) == 0 {
		return ""
	}
	parts := []string{}
	for _, p := range s.TParams {
		parts = append(parts, p.Name)
	}
	return "[" + strings.Join(parts, ", ") + "]"
}

// InstArgs: "[int, string]"
func (s *Struct) InstArgs() string {
	if len(s.TParams) == 0 {
		return ""
	}
	parts := []string{}
	for _, p := range s.TParams {
		parts = append(parts, p.Inst)
	}
	return "[" + strings.Join(parts, ", ") + "]"
}

func (s *Struct) Applicable() []int {
	out := []int{}
	for i := range s.Fields {
		if s.Fields[i].Applicable() {
			out = append(out, i)
		}
	}
	return out
}

func (s *Struct) NApp() int       { return len(s.Applicable()) }
func (s *Struct) HasTuple() bool  { return s.NApp() < 22 }
func (s *Struct) ValueRuns() bool { return s.Ann.Value && s.NApp() != 0 }

// Decl is the Go source of the declaration (the replay input of a violation).
func (s *Struct) Decl() string {
	var sb strings.Builder
	sb.WriteString(s.Ann.Comment())
	sb.WriteString("type " + s.Name + s.TypeParamDecl() + " struct {\n")
	for i, f := range s.Fields {
		if i > 0 && s.Fields[i-1].JoinNext {
			continue // already written as part of `a, b T`
		}
		sb.WriteString("\t")
		if !f.Embedded {
			names := f.Name
			for j := i; s.Fields[j].JoinNext; j++ {
				names += ", " + s.Fields[j+1].Name
			}
			sb.WriteString(names + " ")
		}
		sb.WriteString(f.Ty.Src(nil))
		if f.Tag != "" {
			sb.WriteString(" `" + f.Tag + "`")
		}
		sb.WriteString("\n")
	}
	sb.WriteString("}\n")
	if s.UserSrc != "" {
		sb.WriteString(s.UserSrc)
	}
	return sb.String()
}

// ---------------------------------------------------------------------------------- which methods gombok generates
// (a port of FpVerif.Rec.methodsT/methodsB/methodsM/clashes of lean/FpVerif/Model/Record.lean; the
// Lean side is the reference, the `methods` correspondence op compares both with reflection)

type Meth struct {
	Name string
	Kind string // getter withF withSome withNone getPub withPub string asTuple unapply asMap asLabelled marshalJSON unmarshalJSON builder asMutable build bSet bSome bNone fromTuple apply fromMap fromLabelled asImmutable
	I    int
}

type gen struct{ out []Meth }

func contains(xs []string, x string) bool {
	for _, y := range xs {
		if y == x {
			return true
		}
	}
	return false
}

func (g *gen) has(n string) bool {
	for _, m := range g.out {
		if m.Name == n {
			return true
		}
	}
	return false
}
func (g *gen) emitChecked(user []string, n, kind string, i int) {
	if contains(user, n) || g.has(n) {
		return
	}
	g.out = append(g.out, Meth{n, kind, i})
}
func (g *gen) emitUserOnly(user []string, n, kind string, i int) {
	if contains(user, n) {
		return
	}
	g.out = append(g.out, Meth{n, kind, i})
}

func (s *Struct) genPrivateGetters(g *gen) {
	for i := range s.Fields {
		if s.Fields[i].Private() {
			g.emitChecked(s.UserT, PublicName(s.Fields[i].Name), "getter", i)
		}
	}
}

func (s *Struct) genPrivateWiths(g *gen) {
	for i := range s.Fields {
		f := &s.Fields[i]
		if f.Private() {
			u := PublicName(f.Name)
			g.emitChecked(s.UserT, "With"+u, "withF", i)
			if f.Ty.IsOpt() {
				g.emitChecked(s.UserT, "WithSome"+u, "withSome", i)
				g.emitChecked(s.UserT, "WithNone"+u, "withNone", i)
			}
		}
	}
}

func (s *Struct) MethodsT() []Meth {
	g := &gen{}
	if s.ValueRuns() {
		s.genPrivateGetters(g)
		s.genPrivateWiths(g)
		g.emitChecked(s.UserT, "String", "string", -1)
		if s.HasTuple() {
			g.emitChecked(s.UserT, "AsTuple", "asTuple", -1)
		}
		g.emitChecked(s.UserT, "Unapply", "unapply", -1)
		g.emitUserOnly(s.UserT, "AsMap", "asMap", -1)
		if s.Ann.GenLabelled && s.HasTuple() {
			g.emitUserOnly(s.UserT, "AsLabelled", "asLabelled", -1)
		}
		if s.Ann.Json {
			g.emitUserOnly(s.UserT, "MarshalJSON", "marshalJSON", -1)
			g.emitUserOnly(s.UserT, "UnmarshalJSON", "unmarshalJSON", -1)
		}
		g.emitUserOnly(s.UserT, "Builder", "builder", -1)
		g.emitUserOnly(s.UserT, "AsMutable", "asMutable", -1)
	}
	if s.Ann.Getter {
		s.genPrivateGetters(g)
	}
	if s.Ann.GetterPub {
		for i := range s.Fields {
			if s.Fields[i].Public() {
				g.emitChecked(s.UserT, "Get"+s.Fields[i].Name, "getPub", i)
			}
		}
	}
	if s.Ann.With {
		s.genPrivateWiths(g)
	}
	if s.Ann.WithPub {
		for i := range s.Fields {
			if s.Fields[i].Public() {
				g.emitChecked(s.UserT, "With"+s.Fields[i].Name, "withPub", i)
			}
		}
	}
	if s.Ann.Builder {
		g.emitUserOnly(s.UserT, "Builder", "builder", -1)
	}
	return g.out
}

func (s *Struct) genBuilderB() []Meth {
	out := []Meth{}
	emit := func(n, kind string, i int) {
		if !contains(s.UserB, n) {
			out = append(out, Meth{n, kind, i})
		}
	}
	emit("Build", "build", -1)
	for i := range s.Fields {
		f := &s.Fields[i]
		if f.Private() {
			u := PublicName(f.Name)
			emit(u, "bSet", i)
			if f.Ty.IsOpt() {
				emit("Some"+u, "bSome", i)
				emit("None"+u, "bNone", i)
			}
		}
	}
	if s.HasTuple() {
		emit("FromTuple", "fromTuple", -1)
	}
	emit("Apply", "apply", -1)
	emit("FromMap", "fromMap", -1)
	if s.HasTuple() && s.Ann.GenLabelled {
		emit("FromLabelled", "fromLabelled", -1)
	}
	return out
}

func (s *Struct) MethodsB() []Meth {
	out := []Meth{}
	if s.ValueRuns() {
		out = append(out, s.genBuilderB()...)
	}
	if s.Ann.Builder {
		out = append(out, s.genBuilderB()...)
	}
	return out
}

func (s *Struct) MethodsM() []Meth {
	if s.ValueRuns() {
		return []Meth{{"AsImmutable", "asImmutable", -1}}
	}
	return nil
}

func (s *Struct) HasBuilderType() bool { return s.ValueRuns() || s.Ann.Builder || s.BDef }
func (s *Struct) HasMutableType() bool { return s.ValueRuns() }

func dups(xs []string) []string {
	out := []string{}
	for i, x := range xs {
		if contains(xs[i+1:], x) {
			out = append(out, x)
		}
	}
	return out
}

// Clashes: name-level reasons why the generated file cannot compile (port of Rec.clashes).
func (s *Struct) Clashes() []string {
	out := []string{}
	fieldNames := []string{}
	for _, f := range s.Fields {
		fieldNames = append(fieldNames, f.Name)
	}
	names := func(ms []Meth) []string {
		o := []string{}
		for _, m := range ms {
			o = append(o, m.Name)
		}
		return o
	}
	tNames := append(names(s.MethodsT()), s.UserT...)
	bNames := append(names(s.MethodsB()), s.UserB...)
	for _, d := range dups(tNames) {
		out = append(out, "dup method T."+d)
	}
	for _, d := range dups(bNames) {
		out = append(out, "dup method B."+d)
	}
	for _, n := range tNames {
		if contains(fieldNames, n) {
			out = append(out, "field and method T."+n)
		}
	}
	for _, n := range bNames {
		if contains(fieldNames, n) {
			out = append(out, "field and method B."+n)
		}
	}
	if s.ValueRuns() {
		mnames := []string{}
		for _, f := range s.Fields {
			n := PublicName(f.Name)
			if f.Embedded {
				n = f.Name
			}
			if n != "_" {
				mnames = append(mnames, n)
			}
		}
		for _, d := range dups(mnames) {
			out = append(out, "dup mutable field "+d)
		}
		for _, f := range s.Fields {
			if f.Applicable() && f.Embedded && f.Private() {
				out = append(out, "unknown mutable field "+PublicName(f.Name))
			}
		}
	}
	if s.ValueRuns() || s.Ann.Builder {
		for _, f := range s.Fields {
			if f.Applicable() && f.Name == "r" {
				out = append(out, "Apply parameter r")
			}
		}
	}
	if s.Ann.GetterPub || s.Ann.WithPub {
		for _, f := range s.Fields {
			if f.Name == "_" {
				out = append(out, "blank field accessor")
			}
		}
	}
	return out
}

// RiskyRecursion: the struct refers to itself NOT through a pointer (a slice of itself). gombok emits
// the instance of such a field as a direct recursive call, so constructing the instance never
// returns; it is probed in a separate process.
func (s *Struct) RiskyRecursion() bool {
	var direct func(t *Ty) bool
	direct = func(t *Ty) bool {
		if t.K == "ptr" {
			return false
		}
		if t.K == "struct" && t.Ref == s {
			return true
		}
		return t.Elem != nil && direct(t.Elem)
	}
	for _, f := range s.Fields {
		if f.Applicable() && direct(f.Ty) {
			return true
		}
	}
	return false
}

// ClashKinds: the distinct kinds (first two words) of the predicted clashes, sorted.
func (s *Struct) ClashKinds() []string {
	set := map[string]bool{}
	for _, c := range s.Clashes() {
		w := strings.Fields(c)
		k := w[0]
		if len(w) > 1 && (w[0] == "dup" || w[0] == "unknown" || w[0] == "Apply" || w[0] == "blank") {
			k = w[0] + "-" + w[1]
		}
		if w[0] == "field" {
			k = "field-and-method"
		}
		set[k] = true
	}
	out := []string{}
	for k := range set {
		out = append(out, k)
	}
	sort.Strings(out)
	return out
}

// DeclWithDerives: the declaration followed by its @fp.Derive directives (replay input of violations).
func (s *Struct) DeclWithDerives() string {
	out := s.Decl()
	for _, d := range s.Derives {
		ci := classInfo[d.Class]
		targ := s.Name
		if len(s.TParams) > 0 {
			anys := make([]string, len(s.TParams))
			for i := range anys {
				anys[i] = "any"
			}
			targ += "[" + strings.Join(anys, ", ") + "]"
		}
		rec := ""
		if d.Recursive {
			rec = "(recursive=true)"
		}
		out += fmt.Sprintf("// @fp.Derive%s\nvar _ %s.Derives[%s[%s]]\n", rec, ci.Pkg, ci.TC, targ)
	}
	return out
}

func escAtom(s string) string {
	var sb strings.Builder
	for i := 0; i < len(s); i++ {
		c := s[i]
		if c <= ' ' || c == '(' || c == ')' || c == '%' || c == ';' || c == '=' || c == '|' || c >= 0x7f {
			fmt.Fprintf(&sb, "%%%02X", c)
		} else {
			sb.WriteByte(c)
		}
	}
	if sb.Len() == 0 {
		return "%00"
	}
	return sb.String()
}

func staticTy(t *Ty, st *Struct) string {
	it := t.inst(st)
	if it.K == "opt" {
		return "(o " + staticTy(it.Elem, st) + ")"
	}
	return "(c " + escAtom(it.Src(st.Sub())) + ")"
}

// StaticSpecSexp: the spec line of the Lean oracle built without running anything (used for the
// structs whose generated code is predicted not to compile; only names matter there).
func (s *Struct) StaticSpecSexp() string {
	var sb strings.Builder
	sb.WriteString("(spec " + s.Name + " (origin " + s.Origin + ")")
	sb.WriteString(" (ann " + strings.Join(s.Ann.Names(), " ") + ")")
	sb.WriteString(" (usert " + strings.Join(s.UserT, " ") + ")")
	sb.WriteString(" (userb " + strings.Join(s.UserB, " ") + ")")
	sb.WriteString(" (userm)")
	sb.WriteString(" (defs")
	if s.BDef {
		sb.WriteString(" b")
	}
	sb.WriteString(") (fields")
	flag := func(b bool, y, n string) string {
		if b {
			return y
		}
		return n
	}
	for _, f := range s.Fields {
		sb.WriteString(" (f " + f.Name + " " + staticTy(f.Ty, s) + " " + flag(f.Embedded, "emb", "plain") + " " + flag(f.Empty, "empty", "nonempty") + " " +
			flag(f.Ty.Nilable(), "nilable", "notnil") + " " + escAtom(f.Tag) + " (a _))")
	}
	sb.WriteString("))")
	return sb.String()
}
