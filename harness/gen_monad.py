#!/usr/bin/env python3
"""Generates harness/cmd/monad_<pkg>/main.go for pkg in try, option, either, statet from one
template: the four packages' X_monad.go / X_traverse.go come from one generator template in the
repository, so one harness text (modulo the package prefix and the type constructor) drives all
four.  Re-run by bin/check before every build (arity range read from /repo/internal/max/max.go)."""
import os, re, sys

HERE = os.path.dirname(os.path.abspath(__file__))
REPO = os.environ.get('VERIF_REPO', '/repo')


def max_func():
    try:
        m = re.search(r'const Func = (\d+)', open(os.path.join(REPO, 'internal/max/max.go')).read())
        return int(m.group(1))
    except Exception:
        return 10


PKGS = {
    'try': dict(
        imp='github.com/csgura/fp/try', M='fp.Try[%s]', TP='', TPK='',
        prelude='''
func pureM[X any](v X) fp.Try[X] { return fp.Success(v) }
func conv[X any](t fp.Try[X]) fp.Try[X] { return t }
func obs[X any](m fp.Try[X]) string { return Show(m) }
func obsIter(m fp.Try[fp.Iterator[any]]) string {
	if m.IsSuccess() {
		return Show(fp.Success(m.Get().ToSeq()))
	}
	return Show(m)
}

func extraDirect(r *Rng, sink *Sink) int { return 0 }
'''),
    'option': dict(
        imp='github.com/csgura/fp/option', M='fp.Option[%s]', TP='', TPK='',
        prelude='''
func pureM[X any](v X) fp.Option[X] { return fp.Some(v) }
func conv[X any](t fp.Try[X]) fp.Option[X] {
	if t.IsSuccess() {
		return fp.Some(t.Get())
	}
	return fp.None[X]()
}
func obs[X any](m fp.Option[X]) string { return Show(m) }
func obsIter(m fp.Option[fp.Iterator[any]]) string {
	if m.IsDefined() {
		return Show(fp.Some(m.Get().ToSeq()))
	}
	return Show(m)
}

func extraDirect(r *Rng, sink *Sink) int { return 0 }
'''),
    'either': dict(
        imp='github.com/csgura/fp/either', M='fp.Either[any, %s]', TP='[any]', TPK='[any]',
        prelude='''
func pureM[X any](v X) fp.Either[any, X] { return fp.Right[any](v) }
func conv[X any](t fp.Try[X]) fp.Either[any, X] {
	if t.IsSuccess() {
		return fp.Right[any](t.Get())
	}
	return fp.Left[any, X](any(ShowErr(t.Failed().Get())))
}
func obs[X any](m fp.Either[any, X]) string { return Show(m) }
func obsIter(m fp.Either[any, fp.Iterator[any]]) string {
	if m.IsRight() {
		return Show(fp.Right[any](m.Get().ToSeq()))
	}
	return Show(m)
}

func extraDirect(r *Rng, sink *Sink) int { return 0 }
'''),
    'statet': dict(
        imp='github.com/csgura/fp/statet', M='fp.StateT[int, %s]', TP='[int]', TPK='',
        prelude='''
func pureM[X any](v X) fp.StateT[int, X] { return P.Pure[int](v) }
func conv[X any](t fp.Try[X]) fp.StateT[int, X] {
	return func(s int) (fp.Try[X], int) {
		Emit("st:%d", s)
		if t.IsSuccess() {
			return t, s + 1
		}
		return t, s + 100
	}
}
func obs[X any](m fp.StateT[int, X]) string {
	t, ns := m.Run(s0)
	first := fmt.Sprintf("%s @%d", Show(t), ns)
	// A StateT is a VALUE (C17, C01, C04): running the same program again - from another initial state and once more from the
	// same one - must neither change what the first run returned nor behave differently.  The extra runs are silent (their
	// events are not part of the answer line); seed C17-9: TraverseSeq accumulating into one array allocated at construction.
	saved := Log
	Log = nil
	other, same := "", ""
	func() {
		defer func() {
			if p := recover(); p != nil {
				other, same = "panic", "panic"
			}
		}()
		t2, ns2 := m.Run(s0 + 7)
		other = fmt.Sprintf("%s @%d", Show(t2), ns2)
		t3, ns3 := m.Run(s0)
		same = fmt.Sprintf("%s @%d", Show(t3), ns3)
		_ = other
	}()
	Log = saved
	if again := fmt.Sprintf("%s @%d", Show(t), ns); again != first {
		pendingDirect = append(pendingDirect, [3]string{"statet.run-twice:first-result-changed", curOpLine,
			"the result of the first Run changed after the program was run again: " + first + " -> " + again})
	} else if same != "panic" && same != first {
		pendingDirect = append(pendingDirect, [3]string{"statet.run-twice:not-a-value", curOpLine,
			"running the same program again from the same initial state gave " + same + " instead of " + first})
	}
	return first
}
func obsIter(m fp.StateT[int, fp.Iterator[any]]) string {
	t, ns := m.Run(s0)
	if t.IsSuccess() {
		return fmt.Sprintf("%s @%d", Show(fp.Success(t.Get().ToSeq())), ns)
	}
	return fmt.Sprintf("%s @%d", Show(t), ns)
}

// ---- state-DEPENDENT element functions (C17: "state flows left to right through … Sequence/Traverse"; C04: a result once
// obtained shows the same contents for ever).  stDep(v) returns v*1000+s and moves the state to s+1; it fails at failAt.
func stDep(failAt int) func(int) fp.StateT[int, int] {
	return func(v int) fp.StateT[int, int] {
		return func(s int) (fp.Try[int], int) {
			if v == failAt {
				return fp.Failure[int](E(7)), s + 100
			}
			return fp.Success(v*1000 + s), s + 1
		}
	}
}

// reference: what the fold of stDep over xs from state s returns
func stRef(xs []int, failAt int, s int) string {
	out := []int{}
	for _, v := range xs {
		if v == failAt {
			return fmt.Sprintf("Failure(e7) @%d", s+100)
		}
		out = append(out, v*1000+s)
		s++
	}
	return fmt.Sprintf("Success(%s) @%d", Show(out), s)
}

func extraDirect(r *Rng, sink *Sink) int {
	checks := 0
	for rep := 0; rep < 12; rep++ {
		n := r.Intn(6)
		xs := make([]int, n)
		for i := range xs {
			xs[i] = i + 1
		}
		failAt := -1
		if n > 0 && r.Intn(3) == 0 {
			failAt = 1 + r.Intn(n)
		}
		f := stDep(failAt)
		run := func(p fp.StateT[int, []int], s int) (fp.Try[[]int], int) { return p.Run(s) }
		asSlice := func(p fp.StateT[int, fp.Seq[int]]) fp.StateT[int, []int] {
			return P.Map(p, func(q fp.Seq[int]) []int { return q })
		}
		steps := make([]fp.StateT[int, int], n)
		for i, v := range xs {
			steps[i] = f(v)
		}
		progs := []struct {
			name string
			p    fp.StateT[int, []int]
		}{
			{"TraverseSeq", asSlice(P.TraverseSeq(fp.Seq[int](xs), f))},
			{"TraverseSlice", P.TraverseSlice(xs, f)},
			{"TraverseSeqFunc", asSlice(P.TraverseSeqFunc(f)(fp.Seq[int](xs)))},
			{"TraverseSliceFunc", P.TraverseSliceFunc(f)(xs)},
			{"FlatMapTraverseSeq", asSlice(P.FlatMapTraverseSeq(P.Pure[int](fp.Seq[int](xs)), f))},
			{"FlatMapTraverseSlice", P.FlatMapTraverseSlice(P.Pure[int](xs), f)},
			{"Sequence", P.Sequence(steps)},
			{"Traverse", P.Map(P.Traverse(iterator.FromSeq(fp.Seq[int](xs)), f), func(it fp.Iterator[int]) []int { return it.ToSeq() })},
		}
		for _, pr := range progs {
			sA, sB := r.Range(0, 40), r.Range(50, 90)
			input := fmt.Sprintf("(law-st-traverse %s n=%d failAt=%d sA=%d sB=%d)", pr.name, n, failAt, sA, sB)
			checks++
			got := Outcome(func() string {
				tA, nA := run(pr.p, sA)
				first := fmt.Sprintf("%s @%d", Show(tA), nA)
				if pr.name == "Traverse" {
					return first // an Iterator result is consumed by looking at it; one run only
				}
				tB, nB := run(pr.p, sB)
				second := fmt.Sprintf("%s @%d", Show(tB), nB)
				again := fmt.Sprintf("%s @%d", Show(tA), nA)
				if again != first {
					return "first result changed by the second run: " + first + " -> " + again
				}
				if want := stRef(xs, failAt, sB); second != want {
					return "second run: " + second + " want " + want
				}
				return first
			})
			if want := stRef(xs, failAt, sA) + " | "; got != want {
				sink.DirectFail("statet.state-dependent-traverse", input, "got: "+got+" want: "+want)
			}
		}
	}
	return checks
}
'''),
}

HEAD = '''// Code generated by harness/gen_monad.py; DO NOT EDIT.
// Correspondence + direct harness for the generated monad family of package @PKG@ (C01, C02, C14).
package main

import (
	"flag"
	"fmt"
	"os"
	"strings"

	"github.com/csgura/fp"
	"github.com/csgura/fp/iterator"
	P "@IMP@"
	. "verifharness/common"
)

var _ = strings.Join
var _ = iterator.FromSeq[any]
var s0 = 5

// direct failures found while answering the current operation line (flushed by main)
var pendingDirect [][3]string
var curOpLine string

type MAny = @MANY@
type F1T = fp.Func1[any, any]
@PRELUDE@

// operands: (succ n) (fail e) (zero); every package turns them into its own constructor
func mOf(s *Sx) MAny {
	switch s.Head() {
	case "succ":
		return conv(fp.Success[any](s.List[1].Int()))
	case "fail":
		return conv(fp.Failure[any](E(s.List[1].Int())))
	}
	panic("bad M " + s.String())
}

// kOf: func(any) M[any] from the KT table
func kOf(s *Sx) func(any) MAny {
	k := KTOf(s)
	return func(x any) MAny { return conv(k(x)) }
}

func fnOf(s *Sx) func(xs ...any) any {
	id := s.List[1].Int()
	logit := func(xs []any) {
		parts := make([]string, len(xs))
		for i, x := range xs {
			parts[i] = Show(x)
		}
		Emit("fn%d:%s", id, strings.Join(parts, ","))
	}
	switch s.Head() {
	case "sumN":
		return func(xs ...any) any {
			logit(xs)
			t := 0
			for i, x := range xs {
				t += (i + 1) * AsInt(x)
			}
			return t
		}
	case "tupN":
		return func(xs ...any) any { logit(xs); return append([]any{}, xs...) }
	case "panicN":
		p := s.List[2].Int()
		return func(xs ...any) any { logit(xs); panic(p) }
	}
	panic("bad FN " + s.String())
}

// knOf: func(xs...) M[any]: fails with e when the weighted sum is divisible by m
func knOf(s *Sx) func(xs ...any) MAny {
	id, m, e := s.List[1].Int(), s.List[2].Int(), s.List[3].Int()
	return func(xs ...any) MAny {
		parts := make([]string, len(xs))
		t := 0
		for i, x := range xs {
			parts[i] = Show(x)
			t += (i + 1) * AsInt(x)
		}
		Emit("kn%d:%s", id, strings.Join(parts, ","))
		if m != 0 && Emod(t, m) == 0 {
			return conv(fp.Failure[any](E(e)))
		}
		return conv(fp.Success[any](t))
	}
}

func ints(xs []*Sx) []any {
	out := make([]any, len(xs))
	for i, x := range xs {
		out[i] = x.Int()
	}
	return out
}

func ms(xs []*Sx) []MAny {
	out := make([]MAny, len(xs))
	for i, x := range xs {
		out[i] = mOf(x)
	}
	return out
}

// mfOf: M[Func1[any,any]]: (pureF F1) | (failF e)
func mfOf(s *Sx) @MF1@ {
	if s.Head() == "pureF" {
		return pureM(fp.Func1[any, any](F1Of(s.List[1])))
	}
	return conv(fp.Failure[fp.Func1[any, any]](E(s.List[1].Int())))
}

func runOp(op *Sx) string {
	a := op.List
	switch op.Head() {
	case "flatMap":
		return obs(P.FlatMap(mOf(a[1]), kOf(a[2])))
	case "map":
		return obs(P.Map(mOf(a[1]), F1Of(a[2])))
	case "flatten":
		return obs(P.Flatten(P.Map(mOf(a[1]), kOf(a[2]))))
	case "replace":
		return obs(P.Replace(mOf(a[1]), any(a[2].Int())))
	case "map2":
		return obs(P.Map2(mOf(a[1]), mOf(a[2]), F2Of(a[3])))
	case "zip":
		return obs(P.Zip(mOf(a[1]), mOf(a[2])))
	case "ap":
		return obs(P.Ap(mfOf(a[1]), mOf(a[2])))
	case "apFunc":
		m := mOf(a[2])
		return obs(P.ApFunc(mfOf(a[1]), func() MAny { Emit("sup"); return m }))
	case "compose":
		return obs(P.Compose(kOf(a[1]), kOf(a[2]))(any(a[3].Int())))
	case "compose2":
		return obs(P.Compose2(kOf(a[1]), kOf(a[2]))(any(a[3].Int())))
	case "mapSeqLift":
		return obs(P.MapSeqLift(P.Map(mOf(a[1]), func(x any) fp.Seq[any] { return fp.Seq[any]{x, AsInt(x) + 1, AsInt(x) + 2} }), F1Of(a[2])))
	case "mapSliceLift":
		return obs(P.MapSliceLift(P.Map(mOf(a[1]), func(x any) []any { return []any{x, AsInt(x) + 1} }), F1Of(a[2])))
	case "lift":
		return obs(P.Lift@TP@(F1Of(a[1]))(mOf(a[2])))
	case "liftA2":
		return obs(P.LiftA2@TP@(F2Of(a[1]))(mOf(a[2]), mOf(a[3])))
	case "liftM":
		return obs(P.LiftM(kOf(a[1]))(mOf(a[2])))
	case "liftM2":
		kn := knOf(a[1])
		return obs(P.LiftM2(func(x, y any) MAny { return kn(x, y) })(mOf(a[2]), mOf(a[3])))
	case "flatMap2":
		kn := knOf(a[3])
		return obs(P.FlatMap2(mOf(a[1]), mOf(a[2]), func(x, y any) MAny { return kn(x, y) }))
	case "flap":
		return obs(P.Flap(mfOf(a[1]))(any(a[2].Int())))
	case "flapMap":
		return obs(P.FlapMap(F2Of(a[1]), mOf(a[2]))(any(a[3].Int())))
	case "flatFlapMap":
		kn := knOf(a[1])
		return obs(P.FlatFlapMap(func(x, y any) MAny { return kn(x, y) }, mOf(a[2]))(any(a[3].Int())))
	case "method1":
		return obs(P.Method1(mOf(a[1]), F2Of(a[2]))(any(a[3].Int())))
	case "flatMethod1":
		kn := knOf(a[2])
		return obs(P.FlatMethod1(mOf(a[1]), func(x, y any) MAny { return kn(x, y) })(any(a[3].Int())))
	case "method2":
		fn := fnOf(a[2])
		return obs(P.Method2(mOf(a[1]), func(x, y, z any) any { return fn(x, y, z) })(any(a[3].Int()), any(a[4].Int())))
	case "flatMethod2":
		kn := knOf(a[2])
		return obs(P.FlatMethod2(mOf(a[1]), func(x, y, z any) MAny { return kn(x, y, z) })(any(a[3].Int()), any(a[4].Int())))
	case "unzip":
		t := P.Zip(mOf(a[1]), mOf(a[2]))
		x, y := P.UnZip(t)
		return obs(x) + " ; " + obs(y)
	case "with":
		return obs(P.With(F2Of(a[1]), mOf(a[2]))(any(a[3].Int())))
	case "flap2":
		var tf @MF2@
		if a[1].Head() == "pureF" {
			fn := fnOf(a[1].List[1])
			tf = pureM(fp.Func1[any, fp.Func1[any, any]](func(x any) fp.Func1[any, any] {
				Emit("cur1:%s", Show(x))
				return func(y any) any { return fn(x, y) }
			}))
		} else {
			tf = conv(fp.Failure[fp.Func1[any, fp.Func1[any, any]]](E(a[1].List[1].Int())))
		}
		return obs(P.Flap2(tf)(any(a[2].Int()))(any(a[3].Int())))
	case "foldM":
		kn := knOf(a[2])
		return obs(P.FoldM(iterator.FromSeq(ints(a[3:])), any(a[1].Int()), func(b, x any) MAny { return kn(b, x) }))
	case "traverse":
		return obsIter(P.Traverse(iterator.FromSeq(ints(a[2:])), kOf(a[1])))
	case "traverseSeq":
		return obs(P.TraverseSeq(fp.Seq[any](ints(a[2:])), kOf(a[1])))
	case "traverseSlice":
		return obs(P.TraverseSlice(ints(a[2:]), kOf(a[1])))
	case "traverseFunc":
		return obsIter(P.TraverseFunc(kOf(a[1]))(iterator.FromSeq(ints(a[2:]))))
	case "traverseSeqFunc":
		return obs(P.TraverseSeqFunc(kOf(a[1]))(fp.Seq[any](ints(a[2:]))))
	case "traverseSliceFunc":
		return obs(P.TraverseSliceFunc(kOf(a[1]))(ints(a[2:])))
	case "flatMapTraverseSeq":
		return obs(P.FlatMapTraverseSeq(P.Map(mOf(a[1]), func(x any) fp.Seq[any] { return fp.Seq[any]{x, AsInt(x) + 1, AsInt(x) + 2} }), kOf(a[2])))
	case "flatMapTraverseSlice":
		return obs(P.FlatMapTraverseSlice(P.Map(mOf(a[1]), func(x any) []any { return []any{x, AsInt(x) + 1} }), kOf(a[2])))
	case "sequence":
		return obs(P.Sequence(ms(a[1:])))
	case "sequenceIterator":
		return obsIter(P.SequenceIterator(iterator.FromSeq(ms(a[1:]))))
@ARITY_CASES@
	}
	return "bad-op"
}

// ------------------------------------------------------------------------------------ generator

var hist = map[string]int{}

func genM(r *Rng) *Sx {
	if r.Intn(4) == 0 {
		return L(A("fail"), I(r.Range(1, 9)))
	}
	return L(A("succ"), I(r.Range(-3, 9)))
}

func genMF(r *Rng) *Sx {
	if r.Intn(4) == 0 {
		return L(A("failF"), I(r.Range(1, 9)))
	}
	return L(A("pureF"), GenF1(r, true))
}

func genFN(r *Rng) *Sx {
	id := NewID()
	switch r.Intn(8) {
	case 0:
		return L(A("panicN"), I(id), I(r.Range(1, 9)))
	case 1, 2, 3:
		return L(A("tupN"), I(id))
	}
	return L(A("sumN"), I(id))
}

func genKN(r *Rng) *Sx {
	return L(A("kn"), I(NewID()), I(Pick(r, 0, 0, 2, 3, 5)), I(r.Range(1, 9)))
}

func genInts(r *Rng, lo, hi int) []*Sx {
	n := r.Range(lo, hi)
	out := make([]*Sx, n)
	for i := range out {
		out[i] = I(r.Range(-2, 9))
	}
	return out
}

func genMs(r *Rng, n int) []*Sx {
	out := make([]*Sx, n)
	// mostly all-success, sometimes one failure, sometimes several
	mode := r.Intn(4)
	for i := range out {
		out[i] = L(A("succ"), I(r.Range(-3, 9)))
	}
	switch mode {
	case 1:
		if n > 0 {
			out[r.Intn(n)] = L(A("fail"), I(r.Range(1, 9)))
		}
	case 2:
		for i := range out {
			if r.Intn(3) == 0 {
				out[i] = L(A("fail"), I(r.Range(1, 9)))
			}
		}
	}
	return out
}

var simpleOps = []string{"flatMap", "map", "flatten", "replace", "map2", "zip", "ap", "apFunc", "compose", "compose2",
	"mapSeqLift", "mapSliceLift", "lift", "liftA2", "liftM", "liftM2", "flatMap2", "flap", "flapMap", "flatFlapMap",
	"method1", "flatMethod1", "method2", "flatMethod2", "unzip", "with", "flap2", "foldM", "traverse", "traverseSeq",
	"traverseSlice", "traverseFunc", "traverseSeqFunc", "traverseSliceFunc", "flatMapTraverseSeq", "flatMapTraverseSlice",
	"sequence", "sequenceIterator"}

var arityOps = []string{"liftAN", "mapN", "liftMN", "flatMapN", "flapN", "methodN", "flatMethodN", "zip3", "composeN"}

var arityCtr int

func genOp(r *Rng) *Sx {
	ResetIDs()
	if r.Intn(3) == 0 {
		// ARITY2: (family, arity) is drawn round-robin, so that every member x arity is reached within the first
		// len(arityOps)*(@MAXN@-2) arity cases of every run whatever the seed; in the first cycle the receiver of
		// methodN / flatMethodN is successful (the user function is reached), afterwards every third draw is random
		k := arityCtr
		arityCtr++
		name := arityOps[k%len(arityOps)]
		n := 3 + (k/len(arityOps))%(@MAXN@-2)
		first := k < len(arityOps)*(@MAXN@-2)
		if !first && k%3 == 0 {
			name = Pick(r, arityOps...)
			n = r.Range(3, @MAXN@)
		}
		if name == "zip3" || name == "composeN" { // fixed resp. own arity range
			hist["arity:"+name]++
		} else {
			hist[fmt.Sprintf("arity:%s/%d", name, n)]++
		}
		recv := genM(r)
		if first {
			recv = L(A("succ"), I(r.Range(-3, 9)))
		}
		switch name {
		case "zip3":
			return L(append([]*Sx{A("zip3")}, genMs(r, 3)...)...)
		case "composeN":
			n = r.Range(3, 5)
			xs := []*Sx{A("composeN"), I(r.Range(-3, 9))}
			for i := 0; i < n; i++ {
				xs = append(xs, GenKT(r, true))
			}
			return L(xs...)
		case "liftAN", "mapN":
			return L(append([]*Sx{A(name), genFN(r)}, genMs(r, n)...)...)
		case "liftMN", "flatMapN":
			return L(append([]*Sx{A(name), genKN(r)}, genMs(r, n)...)...)
		case "flapN":
			var tf *Sx
			if r.Intn(4) == 0 {
				tf = L(A("failF"), I(r.Range(1, 9)))
			} else {
				tf = L(A("pureF"), genFN(r))
			}
			return L(append([]*Sx{A(name), tf}, genInts(r, n, n)...)...)
		case "methodN":
			return L(append([]*Sx{A(name), recv, genFN(r)}, genInts(r, n-1, n-1)...)...)
		default:
			return L(append([]*Sx{A(name), recv, genKN(r)}, genInts(r, n-1, n-1)...)...)
		}
	}
	name := Pick(r, simpleOps...)
	switch name {
	case "flatMap", "flatten":
		return L(A(name), genM(r), GenKT(r, true))
	case "map":
		return L(A(name), genM(r), GenF1(r, true))
	case "replace":
		return L(A(name), genM(r), I(r.Range(0, 9)))
	case "map2":
		return L(A(name), genM(r), genM(r), GenF2(r, true))
	case "zip", "unzip":
		return L(A(name), genM(r), genM(r))
	case "ap", "apFunc":
		return L(A(name), genMF(r), genM(r))
	case "compose", "compose2":
		return L(A(name), GenKT(r, true), GenKT(r, true), I(r.Range(-3, 9)))
	case "mapSeqLift", "mapSliceLift":
		return L(A(name), genM(r), GenF1(r, true))
	case "lift":
		return L(A(name), GenF1(r, true), genM(r))
	case "liftA2":
		return L(A(name), GenF2(r, true), genM(r), genM(r))
	case "liftM":
		return L(A(name), GenKT(r, true), genM(r))
	case "liftM2":
		return L(A(name), genKN(r), genM(r), genM(r))
	case "flatMap2":
		return L(A(name), genM(r), genM(r), genKN(r))
	case "flap":
		return L(A(name), genMF(r), I(r.Range(-3, 9)))
	case "flapMap":
		return L(A(name), GenF2(r, true), genM(r), I(r.Range(-3, 9)))
	case "flatFlapMap":
		return L(A(name), genKN(r), genM(r), I(r.Range(-3, 9)))
	case "method1":
		return L(A(name), genM(r), GenF2(r, true), I(r.Range(-3, 9)))
	case "flatMethod1":
		return L(A(name), genM(r), genKN(r), I(r.Range(-3, 9)))
	case "method2":
		return L(A(name), genM(r), genFN(r), I(r.Range(-3, 9)), I(r.Range(-3, 9)))
	case "flatMethod2":
		return L(A(name), genM(r), genKN(r), I(r.Range(-3, 9)), I(r.Range(-3, 9)))
	case "with":
		return L(A(name), GenF2(r, true), genM(r), I(r.Range(-3, 9)))
	case "flap2":
		var tf *Sx
		if r.Intn(4) == 0 {
			tf = L(A("failF"), I(r.Range(1, 9)))
		} else {
			tf = L(A("pureF"), genFN(r))
		}
		return L(A(name), tf, I(r.Range(-3, 9)), I(r.Range(-3, 9)))
	case "foldM":
		return L(append([]*Sx{A(name), I(r.Range(0, 3)), genKN(r)}, genInts(r, 0, 6)...)...)
	case "traverse", "traverseSeq", "traverseSlice", "traverseFunc", "traverseSeqFunc", "traverseSliceFunc":
		return L(append([]*Sx{A(name), GenKT(r, true)}, genInts(r, 0, 6)...)...)
	case "flatMapTraverseSeq", "flatMapTraverseSlice":
		return L(A(name), genM(r), GenKT(r, true))
	default: // sequence, sequenceIterator
		return L(append([]*Sx{A(name)}, genMs(r, r.Range(0, 6))...)...)
	}
}

func runCase(op *Sx) string {
	return Outcome(func() string { return runOp(op) })
}

// ------------------------------------------------------------------------------------ direct checks
// The property statement evaluated on the implementation: derived combinator == its definition in
// terms of FlatMap and the unit, computed by hand-written nested FlatMap calls (no model).
func direct(r *Rng, sink *Sink, n int) int {
	checks := 0
	for i := 0; i < n; i++ {
		ResetIDs()
		ma, mb := genM(r), genM(r)
		f1, f2, k := GenF1(r, false), GenF2(r, false), GenKT(r, false)
		cmp := func(key string, input *Sx, got, want func() string) {
			checks++
			g, w := Outcome(got), Outcome(want)
			if g != w {
				sink.DirectFail("@PKG@."+key, input.String(), "derived: "+g+" definition: "+w)
			}
		}
		cmp("Map", L(A("law-map"), ma, f1),
			func() string { return obs(P.Map(mOf(ma), F1Of(f1))) },
			func() string {
				f := F1Of(f1)
				return obs(P.FlatMap(mOf(ma), func(x any) MAny { return pureM(f(x)) }))
			})
		cmp("Map2", L(A("law-map2"), ma, mb, f2),
			func() string { return obs(P.Map2(mOf(ma), mOf(mb), F2Of(f2))) },
			func() string {
				f := F2Of(f2)
				b := mOf(mb)
				return obs(P.FlatMap(mOf(ma), func(x any) MAny {
					return P.FlatMap(b, func(y any) MAny { return pureM(f(x, y)) })
				}))
			})
		cmp("FlatMap/left-identity", L(A("law-leftid"), I(3), k),
			func() string { return obs(P.FlatMap(pureM(any(3)), kOf(k))) },
			func() string { return obs(kOf(k)(3)) })
		cmp("FlatMap/right-identity", L(A("law-rightid"), ma),
			func() string { return obs(P.FlatMap(mOf(ma), func(x any) MAny { return pureM(x) })) },
			func() string { return obs(mOf(ma)) })
		k2 := GenKT(r, false)
		cmp("FlatMap/associativity", L(A("law-assoc"), ma, k, k2),
			func() string { return obs(P.FlatMap(P.FlatMap(mOf(ma), kOf(k)), kOf(k2))) },
			func() string {
				kk, kk2 := kOf(k), kOf(k2)
				return obs(P.FlatMap(mOf(ma), func(x any) MAny { return P.FlatMap(kk(x), kk2) }))
			})
		cmp("Zip", L(A("law-zip"), ma, mb),
			func() string { return obs(P.Zip(mOf(ma), mOf(mb))) },
			func() string {
				b := mOf(mb)
				return obs(P.FlatMap(mOf(ma), func(x any) @MT2@ {
					return P.FlatMap(b, func(y any) @MT2@ { return pureM(fp.Tuple2[any, any]{I1: x, I2: y}) })
				}))
			})
		cmp("LiftM", L(A("law-liftM"), ma, k),
			func() string { return obs(P.LiftM(kOf(k))(mOf(ma))) },
			func() string { return obs(P.FlatMap(mOf(ma), kOf(k))) })
	}
	checks += extraDirect(r, sink)
	return checks
}

func main() {
	seed := flag.Uint64("seed", 1, "PRNG seed")
	n := flag.Int("n", 2000, "number of generated cases")
	out := flag.String("out", ".", "output directory")
	replay := flag.String("replay", "", "run one op line and print the implementation's answer")
	opsFile := flag.String("ops", "", "run the op lines of this file instead of generating")
	flag.Parse()
	if *replay != "" {
		op, err := Parse(*replay)
		if err != nil {
			fmt.Println("bad-op")
			os.Exit(2)
		}
		if strings.HasPrefix(op.Head(), "law-") {
			fmt.Println("direct law: re-run bin/check")
			return
		}
		fmt.Println(runCase(op))
		for _, d := range pendingDirect {
			fmt.Println("DIRECT FAILURE", d[0], d[2])
		}
		return
	}
	r := NewRng(*seed)
	sink := NewSink(*out)
	if *opsFile != "" {
		for _, line := range ReadLines(*opsFile) {
			op, err := Parse(line)
			if err != nil {
				continue
			}
			curOpLine = line
			sink.Case(line, func() string { return runCase(op) })
			for _, d := range pendingDirect {
				sink.DirectFail("@PKG@."+d[0], d[1], d[2])
			}
			pendingDirect = nil
		}
		sink.Close()
		fmt.Printf("{\\"cases\\": %d}\\n", sink.N)
		return
	}
	for i := 0; i < *n; i++ {
		op := genOp(r)
		hist[op.Head()]++
		curOpLine = op.String()
		sink.Case(curOpLine, func() string { return runCase(op) })
		for _, d := range pendingDirect {
			sink.DirectFail("@PKG@."+d[0], d[1], d[2])
		}
		pendingDirect = nil
	}
	nd := direct(r, sink, *n/10+10)
	sink.Close()
	parts := []string{}
	for k, v := range hist {
		parts = append(parts, fmt.Sprintf("%q: %d", k, v))
	}
	fmt.Printf("{\\"cases\\": %d, \\"direct_checks\\": %d, \\"direct_failures\\": %d, \\"histogram\\": {%s}}\\n",
		sink.N, nd, sink.DirectFailures, strings.Join(parts, ", "))
}
'''


def arity_cases(maxn):
    out = []
    w = out.append
    # dispatch on op name then on arity
    def args(n, pre='x'):
        return ', '.join(f'{pre}{i}' for i in range(1, n + 1))

    def decl(n, pre='x'):
        return args(n, pre) + ' any'

    def ma(n, off):
        return ', '.join(f'mOf(a[{off + i}])' for i in range(n))

    def ia(n, off):
        return ', '.join(f'any(a[{off + i}].Int())' for i in range(n))

    w('\tcase "zip3":\n\t\treturn obs(P.Zip3(mOf(a[1]), mOf(a[2]), mOf(a[3])))')
    w('\tcase "composeN":\n\t\tswitch len(a) - 2 {')
    for n in (3, 4, 5):
        ks = ', '.join(f'fp.Func1[any, MAny](kOf(a[{2 + i}]))' for i in range(n))
        w(f'\t\tcase {n}:\n\t\t\treturn obs(P.Compose{n}({ks})(any(a[1].Int())))')
    w('\t\t}')
    for name in ('liftAN', 'mapN', 'liftMN', 'flatMapN'):
        w(f'\tcase "{name}":\n\t\tswitch len(a) - 2 {{')
        for n in range(3, maxn):
            if name == 'liftAN':
                body = f'fn := fnOf(a[1])\n\t\t\treturn obs(P.LiftA{n}@TP@(func({decl(n)}) any {{ return fn({args(n)}) }})({ma(n, 2)}))'
            elif name == 'mapN':
                body = f'fn := fnOf(a[1])\n\t\t\treturn obs(P.Map{n}({ma(n, 2)}, func({decl(n)}) any {{ return fn({args(n)}) }}))'
            elif name == 'liftMN':
                body = f'kn := knOf(a[1])\n\t\t\treturn obs(P.LiftM{n}(func({decl(n)}) MAny {{ return kn({args(n)}) }})({ma(n, 2)}))'
            else:
                body = f'kn := knOf(a[1])\n\t\t\treturn obs(P.FlatMap{n}({ma(n, 2)}, func({decl(n)}) MAny {{ return kn({args(n)}) }}))'
            w(f'\t\tcase {n}:\n\t\t\t{body}')
        w('\t\t}')
    # flapN: a[1] = (pureF FN)|(failF e); a[2..] ints
    w('\tcase "flapN":\n\t\tswitch len(a) - 2 {')
    for n in range(3, maxn):
        # curried type
        def curT(k, res):
            t = res
            for _ in range(k):
                t = f'fp.Func1[any, {t}]'
            return t
        # build curried function with logging at each level
        def build(level, n):
            if level == n:
                return f'func(x{level} any) any {{ return fn({args(n)}) }}'
            inner = build(level + 1, n)
            return (f'func(x{level} any) {curT(n - level, "any")} {{\n\t\t\t\tEmit("cur{level}:%s", Show(x{level}))\n\t\t\t\treturn {inner}\n\t\t\t}}')
        ct = curT(n, 'any')
        apps = ''.join(f'(any(a[{2 + i}].Int()))' for i in range(n))
        w(f'\t\tcase {n}:\n\t\t\tvar tf @M_OPEN@{ct}@M_CLOSE@\n\t\t\tif a[1].Head() == "pureF" {{\n\t\t\t\tfn := fnOf(a[1].List[1])\n\t\t\t\ttf = pureM({ct}({build(1, n)}))\n\t\t\t}} else {{\n\t\t\t\ttf = conv(fp.Failure[{ct}](E(a[1].List[1].Int())))\n\t\t\t}}\n\t\t\treturn obs(P.Flap{n}(tf){apps})')
    w('\t\t}')
    for name in ('methodN', 'flatMethodN'):
        w(f'\tcase "{name}":\n\t\tswitch len(a) - 2 {{')
        for n in range(3, maxn):
            if name == 'methodN':
                body = f'fn := fnOf(a[2])\n\t\t\treturn obs(P.Method{n}(mOf(a[1]), func({decl(n)}) any {{ return fn({args(n)}) }})({ia(n - 1, 3)}))'
            else:
                body = f'kn := knOf(a[2])\n\t\t\treturn obs(P.FlatMethod{n}(mOf(a[1]), func({decl(n)}) MAny {{ return kn({args(n)}) }})({ia(n - 1, 3)}))'
            w(f'\t\tcase {n}:\n\t\t\t{body}')
        w('\t\t}')
    return '\n'.join(out)


def main():
    maxn = max_func()
    for pkg, c in PKGS.items():
        M = c['M']
        src = HEAD.replace('@ARITY_CASES@', arity_cases(maxn))
        mopen, mclose = M.split('%s')
        src = (src.replace('@PKG@', pkg).replace('@IMP@', c['imp']).replace('@MANY@', M % 'any')
               .replace('@PRELUDE@', c['prelude']).replace('@TP@', c['TP'])
               .replace('@MF1@', M % 'fp.Func1[any, any]').replace('@MF2@', M % 'fp.Func1[any, fp.Func1[any, any]]')
               .replace('@MT2@', M % 'fp.Tuple2[any, any]')
               .replace('@M_OPEN@', mopen).replace('@M_CLOSE@', mclose).replace('@MAXN@', str(maxn - 1)))
        d = os.path.join(HERE, 'cmd', 'monad_' + pkg)
        os.makedirs(d, exist_ok=True)
        with open(os.path.join(d, 'main.go'), 'w') as w:
            w.write(src)


if __name__ == '__main__':
    main()
