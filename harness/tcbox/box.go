// Package tcbox: boxed values and boxed instances for the type-class harnesses (C09, C10, C11, C18).
//
// The library's combinators are generic; an interpreter of instance EXPRESSIONS needs one static
// instantiation per combinator. Every combinator is instantiated at element type `any` (plus typed
// instantiations at int/string for the innermost container), and a typed instance fp.Eq[T] is
// turned into an fp.Eq[any] by an adaptor that only type-asserts and delegates — every method of the
// real instance is reached through the method of the same name.
package tcbox

import (
	"reflect"
	"fmt"
	"sort"
	"strconv"
	"strings"
	"time"

	"github.com/csgura/fp"
	"github.com/csgura/fp/hash"
	"github.com/csgura/fp/hlist"
	"github.com/csgura/fp/immutable"
	"github.com/csgura/fp/lazy"
	"verifharness/common"
)

// ------------------------------------------------------------------------------------ adaptors

func BoxEq[T any](e fp.Eq[T]) fp.Eq[any] {
	return fp.EqFunc[any](func(a, b any) bool { return e.Eqv(a.(T), b.(T)) })
}

func UnboxEq[T any](e fp.Eq[any]) fp.Eq[T] {
	return fp.EqFunc[T](func(a, b T) bool { return e.Eqv(a, b) })
}

type unboxHash[T any] struct{ h fp.Hashable[any] }

func (r unboxHash[T]) Eqv(a, b T) bool { return r.h.Eqv(a, b) }
func (r unboxHash[T]) Hash(a T) uint32 { return r.h.Hash(a) }

func UnboxHash[T any](h fp.Hashable[any]) fp.Hashable[T] { return unboxHash[T]{h} }

func UnboxOrd[T any](o fp.Ord[any]) fp.Ord[T] { return unboxOrd[T]{o} }

type boxHash[T any] struct{ h fp.Hashable[T] }

func (r boxHash[T]) Eqv(a, b any) bool { return r.h.Eqv(a.(T), b.(T)) }
func (r boxHash[T]) Hash(a any) uint32 { return r.h.Hash(a.(T)) }

func BoxHash[T any](h fp.Hashable[T]) fp.Hashable[any] { return boxHash[T]{h} }

type boxOrd[T any] struct{ o fp.Ord[T] }

func (r boxOrd[T]) Eqv(a, b any) bool    { return r.o.Eqv(a.(T), b.(T)) }
func (r boxOrd[T]) Compare(a, b any) int { return r.o.Compare(a.(T), b.(T)) }
func (r boxOrd[T]) Less(a, b any) bool   { return r.o.Less(a.(T), b.(T)) }
func (r boxOrd[T]) LessEq(a, b any) bool { return r.o.LessEq(a.(T), b.(T)) }
func (r boxOrd[T]) Max(a, b any) any     { return r.o.Max(a.(T), b.(T)) }
func (r boxOrd[T]) Min(a, b any) any     { return r.o.Min(a.(T), b.(T)) }
func (r boxOrd[T]) ThenComparing(other fp.Ord[any]) fp.Ord[any] {
	return boxOrd[T]{r.o.ThenComparing(unboxOrd[T]{other})}
}
func (r boxOrd[T]) Reversed() fp.Ord[any] { return boxOrd[T]{r.o.Reversed()} }

func BoxOrd[T any](o fp.Ord[T]) fp.Ord[any] { return boxOrd[T]{o} }

// unboxOrd presents an fp.Ord[any] whose values are all of dynamic type T as an fp.Ord[T].
type unboxOrd[T any] struct{ o fp.Ord[any] }

func (r unboxOrd[T]) Eqv(a, b T) bool    { return r.o.Eqv(a, b) }
func (r unboxOrd[T]) Compare(a, b T) int { return r.o.Compare(a, b) }
func (r unboxOrd[T]) Less(a, b T) bool   { return r.o.Less(a, b) }
func (r unboxOrd[T]) LessEq(a, b T) bool { return r.o.LessEq(a, b) }
func (r unboxOrd[T]) Max(a, b T) T       { return r.o.Max(a, b).(T) }
func (r unboxOrd[T]) Min(a, b T) T       { return r.o.Min(a, b).(T) }
func (r unboxOrd[T]) ThenComparing(other fp.Ord[T]) fp.Ord[T] {
	return unboxOrd[T]{r.o.ThenComparing(boxOrd[T]{other})}
}
func (r unboxOrd[T]) Reversed() fp.Ord[T] { return unboxOrd[T]{r.o.Reversed()} }

type boxMonoid[T any] struct{ m fp.Monoid[T] }

func (r boxMonoid[T]) Empty() any           { return r.m.Empty() }
func (r boxMonoid[T]) Combine(a, b any) any { return r.m.Combine(a.(T), b.(T)) }

func BoxMonoid[T any](m fp.Monoid[T]) fp.Monoid[any] { return boxMonoid[T]{m} }

// UnboxMonoid presents an fp.Monoid[any] whose values are all of dynamic type T as an fp.Monoid[T]
// (so that a combinator can be instantiated at the concrete element type).
type unboxMonoid[T any] struct{ m fp.Monoid[any] }

func (r unboxMonoid[T]) Empty() T         { return r.m.Empty().(T) }
func (r unboxMonoid[T]) Combine(a, b T) T { return r.m.Combine(a, b).(T) }

func UnboxMonoid[T any](m fp.Monoid[any]) fp.Monoid[T] { return unboxMonoid[T]{m} }

func UnboxSemigroup[T any](m fp.Semigroup[any]) fp.Semigroup[T] {
	return fp.SemigroupFunc[T](func(a, b T) T { return m.Combine(a, b).(T) })
}

func BoxSemigroup[T any](m fp.Semigroup[T]) fp.Semigroup[any] {
	return fp.SemigroupFunc[any](func(a, b any) any { return m.Combine(a.(T), b.(T)) })
}

func BoxClone[T any](c fp.Clone[T]) fp.Clone[any] {
	return fp.CloneFunc[any](func(a any) any { return c.Clone(a.(T)) })
}

// ------------------------------------------------------------------------------------ types

// Ty is the Go type an instance expression is an instance for.
type Ty struct {
	K   string // int string bool unit bytes time option seq slice ptr tuple hlist gomap fpmap set try dual endo eval
	E   []*Ty
	Key string // gomap/fpmap/set: "int" | "string"
}

func T0(k string) *Ty           { return &Ty{K: k} }
func T1(k string, e *Ty) *Ty    { return &Ty{K: k, E: []*Ty{e}} }
func TN(k string, e ...*Ty) *Ty { return &Ty{K: k, E: e} }

// Leaf returns "int"/"string" when t is a container (seq, slice, option, ptr) of that scalar: those
// are instantiated at the concrete element type instead of `any`.
func (t *Ty) Leaf() string {
	switch t.K {
	case "seq", "slice", "option", "ptr":
		if k := t.E[0].K; k == "int" || k == "string" {
			return k
		}
	}
	return ""
}

func (t *Ty) String() string {
	if len(t.E) == 0 && t.Key == "" {
		return t.K
	}
	parts := []string{t.K}
	if t.Key != "" {
		parts = append(parts, t.Key)
	}
	for _, e := range t.E {
		parts = append(parts, e.String())
	}
	return "(" + strings.Join(parts, " ") + ")"
}

// ------------------------------------------------------------------------------------ building values

// Env keeps pointer identities within one operation: the same address id is the same pointer.
type Env struct {
	ptrs map[string]any
	N    int // counts builds: alternates between representations where the library offers several
	// slices built so far in this case: a later slice whose contents are a prefix of an earlier one is (every other time)
	// handed out as a VIEW of it - same backing array, same first element, different length (seed C09-7: an identity
	// fast path in eq.Seq placed before the length check)
	slices []any
}

func NewEnv() *Env { return &Env{ptrs: map[string]any{}} }

func atoi(s string) int {
	n, err := strconv.ParseInt(s, 10, 64)
	if err != nil {
		panic("bad int " + s)
	}
	return int(n)
}

func strOf(v *common.Sx) string {
	if len(v.List) > 1 {
		return v.List[1].Atom
	}
	return ""
}

func zoneOf(z int) *time.Location {
	if z == 0 {
		return time.UTC
	}
	return time.FixedZone("z"+strconv.Itoa(z), z*3600)
}

func typedSlice[T any](env *Env, v *common.Sx, f func(*common.Sx) T, mk func(n int) []T) []T {
	out := mk(len(v.List) - 1)
	for i, x := range v.List[1:] {
		out[i] = f(x)
	}
	if len(out) > 0 && env.N%2 == 0 {
		for _, p := range env.slices {
			if prev, ok := p.([]T); ok && len(prev) > len(out) && reflect.DeepEqual(prev[:len(out)], out) {
				if env.N%4 == 0 {
					// with the spare capacity of the longer slice (seed C11-9: a Combine written as append(a, b...) writes into
					// the left operand's backing array, i.e. into the other operand)
					return prev[:len(out)]
				}
				return prev[:len(out):len(out)]
			}
		}
	}
	env.slices = append(env.slices, out)
	return out
}

func typedPtr[T any](env *Env, v *common.Sx, f func(*common.Sx) T) any {
	if !v.IsL {
		return (*T)(nil)
	}
	key := v.List[1].Atom
	if p, ok := env.ptrs[key]; ok {
		return p
	}
	p := new(T)
	*p = f(v.List[2])
	env.ptrs[key] = p
	return p
}

func KeyHasher(key string) fp.Hashable[any] {
	if key == "string" {
		return BoxHash(hash.String)
	}
	return BoxHash(hash.Number[int]())
}

// Build constructs the Go value of type t that the value expression v denotes.
func Build(t *Ty, v *common.Sx, env *Env) any {
	env.N++
	switch t.K {
	case "int":
		return atoi(v.Atom)
	case "string":
		return strOf(v)
	case "bool":
		return v.Atom == "true"
	case "unit":
		return fp.Unit{}
	case "bytes":
		if !v.IsL {
			return []byte(nil)
		}
		return typedSlice(env, v, func(x *common.Sx) byte { return byte(atoi(x.Atom)) }, func(n int) []byte { return make([]byte, n, n+env.N%3) })
	case "time":
		return time.Unix(0, int64(atoi(v.List[1].Atom))).In(zoneOf(atoi(v.List[2].Atom)))
	case "option":
		switch t.Leaf() {
		case "int":
			if !v.IsL {
				return fp.None[int]()
			}
			return fp.Some(atoi(v.List[1].Atom))
		case "string":
			if !v.IsL {
				return fp.None[string]()
			}
			return fp.Some(strOf(v.List[1]))
		}
		if !v.IsL {
			return fp.None[any]()
		}
		return fp.Some[any](Build(t.E[0], v.List[1], env))
	case "seq":
		switch t.Leaf() {
		case "int":
			if !v.IsL {
				return fp.Seq[int](nil)
			}
			return fp.Seq[int](typedSlice(env, v, func(x *common.Sx) int { return atoi(x.Atom) }, func(n int) []int { return make([]int, n, n+env.N%3) }))
		case "string":
			if !v.IsL {
				return fp.Seq[string](nil)
			}
			return fp.Seq[string](typedSlice(env, v, strOf, func(n int) []string { return make([]string, n, n+env.N%3) }))
		}
		if !v.IsL {
			return fp.Seq[any](nil)
		}
		return fp.Seq[any](typedSlice(env, v, func(x *common.Sx) any { return Build(t.E[0], x, env) }, func(n int) []any { return make([]any, n, n+env.N%3) }))
	case "slice":
		switch t.Leaf() {
		case "int":
			if !v.IsL {
				return []int(nil)
			}
			return typedSlice(env, v, func(x *common.Sx) int { return atoi(x.Atom) }, func(n int) []int { return make([]int, n, n+env.N%3) })
		case "string":
			if !v.IsL {
				return []string(nil)
			}
			return typedSlice(env, v, strOf, func(n int) []string { return make([]string, n, n+env.N%3) })
		}
		if !v.IsL {
			return []any(nil)
		}
		return typedSlice(env, v, func(x *common.Sx) any { return Build(t.E[0], x, env) }, func(n int) []any { return make([]any, n, n+env.N%3) })
	case "ptr":
		switch t.Leaf() {
		case "int":
			return typedPtr(env, v, func(x *common.Sx) int { return atoi(x.Atom) })
		case "string":
			return typedPtr(env, v, strOf)
		}
		return typedPtr(env, v, func(x *common.Sx) any { return Build(t.E[0], x, env) })
	case "tuple":
		xs := make([]any, len(t.E))
		for i := range xs {
			xs[i] = Build(t.E[i], v.List[i+1], env)
		}
		return MkTuple(xs)
	case "hlist":
		var tail any = hlist.Empty()
		for i := len(t.E) - 1; i >= 0; i-- {
			tail = hlist.Concat[any, any](Build(t.E[i], v.List[i+1], env), tail)
		}
		return tail
	case "gomap":
		if !v.IsL {
			return map[any]any(nil)
		}
		m := map[any]any{}
		for _, kv := range v.List[1:] {
			m[Build(T0(t.Key), kv.List[0], env)] = Build(t.E[0], kv.List[1], env)
		}
		return m
	case "fpmap":
		if !v.IsL {
			return fp.Map[any, any]{}
		}
		if len(v.List)%2 == 0 {
			// the zero value grows through fp.UnsafeGoMap
			m := fp.Map[any, any]{}
			for _, kv := range v.List[1:] {
				m = m.Updated(Build(T0(t.Key), kv.List[0], env), Build(t.E[0], kv.List[1], env))
			}
			return m
		}
		ts := []fp.Tuple2[any, any]{}
		for _, kv := range v.List[1:] {
			ts = append(ts, fp.Tuple2[any, any]{I1: Build(T0(t.Key), kv.List[0], env), I2: Build(t.E[0], kv.List[1], env)})
		}
		return immutable.Map(KeyHasher(t.Key), ts...)
	case "set":
		if !v.IsL {
			return fp.Set[any]{}
		}
		ks := []any{}
		for _, k := range v.List[1:] {
			ks = append(ks, Build(T0(t.Key), k, env))
		}
		if len(ks)%2 == 1 {
			s := fp.Set[any]{}
			for _, k := range ks {
				s = s.Incl(k)
			}
			return s
		}
		return immutable.Set(KeyHasher(t.Key), ks...)
	case "try":
		if v.Head() == "succ" {
			return fp.Success[any](Build(t.E[0], v.List[1], env))
		}
		return fp.Failure[any](common.E(atoi(v.List[1].Atom)))
	case "dual":
		return fp.Dual[any]{GetDual: Build(t.E[0], v.List[1], env)}
	case "endo":
		type lin struct{ a, b int }
		cs := []lin{}
		for _, c := range v.List[1:] {
			cs = append(cs, lin{atoi(c.List[0].Atom), atoi(c.List[1].Atom)})
		}
		return fp.Endo[int](func(x int) int {
			for i := len(cs) - 1; i >= 0; i-- {
				x = cs[i].a*x + cs[i].b
			}
			return x
		})
	case "eval":
		x := Build(t.E[0], v.List[1], env)
		if env.N%2 == 0 {
			return lazy.Call(func() any { return x })
		}
		return lazy.Done(x)
	}
	panic("Build: bad type " + t.String())
}

// ------------------------------------------------------------------------------------ rendering

// FnDomain is the test domain on which functions are compared.
var FnDomain = []int{-2, -1, 0, 1, 2, 3}

func showTyped[T any](xs []T, f func(T) string) string {
	parts := make([]string, len(xs))
	for i, x := range xs {
		parts[i] = f(x)
	}
	return "[" + strings.Join(parts, ",") + "]"
}

func quote(s string) string { return "\"" + s + "\"" }

// ShowV renders a boxed value of type t the way V.toStr does in Lean.
func ShowV(t *Ty, v any) string {
	switch t.K {
	case "int":
		return strconv.Itoa(v.(int))
	case "string":
		return quote(v.(string))
	case "bool":
		if v.(bool) {
			return "true"
		}
		return "false"
	case "unit":
		return "unit"
	case "bytes":
		return "b" + showTyped(v.([]byte), func(b byte) string { return strconv.Itoa(int(b)) })
	case "time":
		return "T(" + strconv.FormatInt(v.(time.Time).UnixNano(), 10) + ")"
	case "option":
		switch t.Leaf() {
		case "int":
			o := v.(fp.Option[int])
			if o.IsEmpty() {
				return "None"
			}
			return "Some(" + strconv.Itoa(o.Get()) + ")"
		case "string":
			o := v.(fp.Option[string])
			if o.IsEmpty() {
				return "None"
			}
			return "Some(" + quote(o.Get()) + ")"
		}
		o := v.(fp.Option[any])
		if o.IsEmpty() {
			return "None"
		}
		return "Some(" + ShowV(t.E[0], o.Get()) + ")"
	case "seq":
		switch t.Leaf() {
		case "int":
			return showTyped(v.(fp.Seq[int]), strconv.Itoa)
		case "string":
			return showTyped(v.(fp.Seq[string]), quote)
		}
		return showTyped(v.(fp.Seq[any]), func(x any) string { return ShowV(t.E[0], x) })
	case "slice":
		switch t.Leaf() {
		case "int":
			return showTyped(v.([]int), strconv.Itoa)
		case "string":
			return showTyped(v.([]string), quote)
		}
		return showTyped(v.([]any), func(x any) string { return ShowV(t.E[0], x) })
	case "ptr":
		switch t.Leaf() {
		case "int":
			p := v.(*int)
			if p == nil {
				return "nil"
			}
			return "&" + strconv.Itoa(*p)
		case "string":
			p := v.(*string)
			if p == nil {
				return "nil"
			}
			return "&" + quote(*p)
		}
		p := v.(*any)
		if p == nil {
			return "nil"
		}
		return "&" + ShowV(t.E[0], *p)
	case "tuple":
		xs, ok := TupleElems(v)
		if !ok || len(xs) != len(t.E) {
			return fmt.Sprintf("?tuple %T", v)
		}
		parts := make([]string, len(xs))
		for i := range xs {
			parts[i] = ShowV(t.E[i], xs[i])
		}
		return "(" + strings.Join(parts, ",") + ")"
	case "hlist":
		parts := []string{}
		cur := v
		for _, e := range t.E {
			c := cur.(hlist.Cons[any, any])
			parts = append(parts, ShowV(e, c.Head()))
			cur = hlist.Tail(c)
		}
		if _, ok := cur.(hlist.Nil); !ok {
			return fmt.Sprintf("?hlist tail %T", cur)
		}
		return strings.Join(append(parts, "HNil"), "::")
	case "gomap":
		m := v.(map[any]any)
		parts := []string{}
		for k, x := range m {
			parts = append(parts, ShowV(T0(t.Key), k)+":"+ShowV(t.E[0], x))
		}
		sort.Strings(parts)
		return "{" + strings.Join(parts, ",") + "}"
	case "fpmap":
		m := v.(fp.Map[any, any])
		parts := []string{}
		for itr := m.Iterator(); itr.HasNext(); {
			kv := itr.Next()
			parts = append(parts, ShowV(T0(t.Key), kv.I1)+":"+ShowV(t.E[0], kv.I2))
		}
		sort.Strings(parts)
		return "{" + strings.Join(parts, ",") + "}"
	case "set":
		s := v.(fp.Set[any])
		parts := []string{}
		for itr := s.Iterator(); itr.HasNext(); {
			parts = append(parts, ShowV(T0(t.Key), itr.Next())+":unit")
		}
		sort.Strings(parts)
		return "{" + strings.Join(parts, ",") + "}"
	case "try":
		tr := v.(fp.Try[any])
		if tr.IsSuccess() {
			return "Success(" + ShowV(t.E[0], tr.Get()) + ")"
		}
		return "Failure(" + common.ShowErr(tr.Failed().Get()) + ")"
	case "dual":
		return "Dual(" + ShowV(t.E[0], v.(fp.Dual[any]).GetDual) + ")"
	case "endo":
		f := v.(fp.Endo[int])
		return "fn" + showTyped(FnDomain, func(x int) string { return strconv.Itoa(f(x)) })
	case "eval":
		return "Eval(" + ShowV(t.E[0], v.(lazy.Eval[any]).Get()) + ")"
	}
	return "?" + t.String()
}
