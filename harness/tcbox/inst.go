package tcbox

import (
	"time"

	"github.com/csgura/fp"
	"github.com/csgura/fp/as"
	"github.com/csgura/fp/eq"
	"github.com/csgura/fp/hash"
	"github.com/csgura/fp/hlist"
	"github.com/csgura/fp/lazy"
	"github.com/csgura/fp/monoid"
	"github.com/csgura/fp/ord"
	"github.com/csgura/fp/semigroup"
	"verifharness/common"
)

// ------------------------------------------------------------------------------------ types of instance expressions

func head(s *common.Sx) string {
	if s.IsL {
		return s.Head()
	}
	return s.Atom
}

// TypeOf returns the Go type an instance expression (of any of the classes) is an instance for.
func TypeOf(s *common.Sx) *Ty {
	a := s.List
	switch head(s) {
	case "int", "sum", "fpsum", "product", "fpproduct":
		return T0("int")
	case "string", "sumstr":
		return T0("string")
	case "bool", "any", "all":
		return T0("bool")
	case "unit":
		return T0("unit")
	case "bytes":
		return T0("bytes")
	case "time":
		return T0("time")
	case "hnil":
		return TN("hlist")
	case "ptrgiven":
		return T1("ptr", T0("int"))
	case "option", "seq", "slice", "ptr", "try", "dual", "eval":
		return T1(head(s), TypeOf(a[1]))
	case "mergeseq":
		return T1("seq", T0("int"))
	case "mergeslice":
		return T1("slice", T0("int"))
	case "endo":
		return T0("endo")
	case "hcons":
		t := TypeOf(a[2])
		return TN("hlist", append([]*Ty{TypeOf(a[1])}, t.E...)...)
	case "tuple":
		es := []*Ty{}
		for _, x := range a[1:] {
			es = append(es, TypeOf(x))
		}
		return TN("tuple", es...)
	case "gomap", "fpmap":
		return &Ty{K: head(s), Key: a[1].Atom, E: []*Ty{TypeOf(a[2])}}
	case "mergegomap":
		return &Ty{K: "gomap", Key: a[1].Atom, E: []*Ty{T0("string")}}
	case "mergemap":
		return &Ty{K: "fpmap", Key: a[1].Atom, E: []*Ty{T0("string")}}
	case "mergeset":
		return &Ty{K: "set", Key: a[1].Atom}
	case "contramap":
		t := TypeOf(a[2])
		switch a[1].Atom {
		case "neg", "mod3":
			return T0("int")
		case "len":
			return T0("string")
		case "some", "single":
			return t.E[0]
		case "fst":
			return TN("tuple", t, T0("int"))
		case "id":
			return t
		}
	case "givenfield":
		if a[1].Atom == "len" {
			return T0("string")
		}
		return T0("int")
	case "asord", "fromcompare", "new":
		return T0("int")
	case "then", "rev", "m", "sg":
		return TypeOf(a[1])
	case "imap":
		if a[1].Atom == "box" {
			return TN("tuple", TypeOf(a[2]))
		}
		return T0("int")
	}
	panic("TypeOf: bad instance " + s.String())
}

// ContraFn is the function table for ContraMap: a function from TypeOf((contramap f I)) to TypeOf(I).
func ContraFn(name string, target *Ty) func(any) any {
	switch name {
	case "neg":
		return func(v any) any { return -v.(int) }
	case "mod3":
		return func(v any) any { return common.Emod(v.(int), 3) }
	case "len":
		return func(v any) any { return len(v.(string)) }
	case "id":
		return func(v any) any { return v }
	case "fst":
		return func(v any) any { xs, _ := TupleElems(v); return xs[0] }
	case "some":
		switch target.Leaf() {
		case "int":
			return func(v any) any { return fp.Some(v.(int)) }
		case "string":
			return func(v any) any { return fp.Some(v.(string)) }
		}
		return func(v any) any { return fp.Some[any](v) }
	case "single":
		switch target.K + ":" + target.Leaf() {
		case "seq:int":
			return func(v any) any { return fp.Seq[int]{v.(int)} }
		case "seq:string":
			return func(v any) any { return fp.Seq[string]{v.(string)} }
		case "slice:int":
			return func(v any) any { return []int{v.(int)} }
		case "slice:string":
			return func(v any) any { return []string{v.(string)} }
		case "slice:":
			return func(v any) any { return []any{v} }
		}
		return func(v any) any { return fp.Seq[any]{v} }
	}
	panic("bad contramap function " + name)
}

// typed element instances for the innermost container (see Ty.Leaf)
func intEq(s *common.Sx) fp.Eq[int] {
	if !s.IsL && s.Atom == "int" {
		return eq.Given[int]()
	}
	return UnboxEq[int](EqOf(s))
}
func strEq(s *common.Sx) fp.Eq[string] {
	if !s.IsL && s.Atom == "string" {
		return eq.String
	}
	return UnboxEq[string](EqOf(s))
}
func intHash(s *common.Sx) fp.Hashable[int] {
	if !s.IsL && s.Atom == "int" {
		return hash.Number[int]()
	}
	return UnboxHash[int](HashOf(s))
}
func strHash(s *common.Sx) fp.Hashable[string] {
	if !s.IsL && s.Atom == "string" {
		return hash.String
	}
	return UnboxHash[string](HashOf(s))
}
func intOrd(s *common.Sx) fp.Ord[int] {
	if !s.IsL && s.Atom == "int" {
		return ord.Given[int]()
	}
	return UnboxOrd[int](OrdOf(s))
}
func strOrd(s *common.Sx) fp.Ord[string] {
	if !s.IsL && s.Atom == "string" {
		return ord.Given[string]()
	}
	return UnboxOrd[string](OrdOf(s))
}

// ------------------------------------------------------------------------------------ eq

func EqOf(s *common.Sx) fp.Eq[any] {
	a := s.List
	t := TypeOf(s)
	switch head(s) {
	case "int":
		return BoxEq(eq.Given[int]())
	case "string":
		return BoxEq(eq.String)
	case "bool":
		return BoxEq(eq.Given[bool]())
	case "bytes":
		return BoxEq(eq.Bytes)
	case "time":
		return BoxEq(eq.Time)
	case "hnil":
		return BoxEq(eq.HNil)
	case "ptrgiven":
		return BoxEq(eq.PtrGiven[int]())
	case "option":
		switch t.Leaf() {
		case "int":
			return BoxEq(eq.Option(intEq(a[1])))
		case "string":
			return BoxEq(eq.Option(strEq(a[1])))
		}
		return BoxEq(eq.Option(EqOf(a[1])))
	case "seq":
		switch t.Leaf() {
		case "int":
			return BoxEq(eq.Seq(intEq(a[1])))
		case "string":
			return BoxEq(eq.Seq(strEq(a[1])))
		}
		return BoxEq(eq.Seq(EqOf(a[1])))
	case "slice":
		switch t.Leaf() {
		case "int":
			return BoxEq(eq.Slice(intEq(a[1])))
		case "string":
			return BoxEq(eq.Slice(strEq(a[1])))
		}
		return BoxEq(eq.Slice(EqOf(a[1])))
	case "ptr":
		switch t.Leaf() {
		case "int":
			return BoxEq(eq.Ptr(lazy.Done(intEq(a[1]))))
		case "string":
			return BoxEq(eq.Ptr(lazy.Call(func() fp.Eq[string] { return strEq(a[1]) })))
		}
		inner := a[1]
		return BoxEq(eq.Ptr(lazy.Call(func() fp.Eq[any] { return EqOf(inner) })))
	case "hcons":
		return BoxEq(eq.HCons[any, any](EqOf(a[1]), EqOf(a[2])))
	case "tuple":
		es := []fp.Eq[any]{}
		for _, x := range a[1:] {
			es = append(es, EqOf(x))
		}
		return EqTuple(es)
	case "contramap":
		return eq.ContraMap(EqOf(a[2]), ContraFn(a[1].Atom, TypeOf(a[2])))
	case "gomap":
		return BoxEq(eq.GoMap[any](EqOf(a[2])))
	case "fpmap":
		return BoxEq(eq.FpMap[any](EqOf(a[2])))
	}
	panic("EqOf: bad instance " + s.String())
}

// ------------------------------------------------------------------------------------ hash

func HashOf(s *common.Sx) fp.Hashable[any] {
	a := s.List
	t := TypeOf(s)
	switch head(s) {
	case "int":
		return BoxHash(hash.Number[int]())
	case "string":
		return BoxHash(hash.String)
	case "bytes":
		return BoxHash(hash.Bytes)
	case "hnil":
		return BoxHash(hash.HNil)
	case "option":
		switch t.Leaf() {
		case "int":
			return BoxHash(hash.Option(intHash(a[1])))
		case "string":
			return BoxHash(hash.Option(strHash(a[1])))
		}
		return BoxHash(hash.Option(HashOf(a[1])))
	case "seq":
		switch t.Leaf() {
		case "int":
			return BoxHash(hash.Seq(intHash(a[1])))
		case "string":
			return BoxHash(hash.Seq(strHash(a[1])))
		}
		return BoxHash(hash.Seq(HashOf(a[1])))
	case "slice":
		switch t.Leaf() {
		case "int":
			return BoxHash(hash.Slice(intHash(a[1])))
		case "string":
			return BoxHash(hash.Slice(strHash(a[1])))
		}
		return BoxHash(hash.Slice(HashOf(a[1])))
	case "ptr":
		switch t.Leaf() {
		case "int":
			return BoxHash(hash.Ptr(lazy.Done(intHash(a[1]))))
		case "string":
			return BoxHash(hash.Ptr(lazy.Call(func() fp.Hashable[string] { return strHash(a[1]) })))
		}
		inner := a[1]
		return BoxHash(hash.Ptr(lazy.Call(func() fp.Hashable[any] { return HashOf(inner) })))
	case "hcons":
		return BoxHash(hash.HCons[any, any](HashOf(a[1]), HashOf(a[2])))
	case "tuple":
		es := []fp.Hashable[any]{}
		for _, x := range a[1:] {
			es = append(es, HashOf(x))
		}
		return HashTuple(es)
	case "contramap":
		return hash.ContraMap(HashOf(a[2]), ContraFn(a[1].Atom, TypeOf(a[2])))
	}
	panic("HashOf: bad instance " + s.String())
}

// ------------------------------------------------------------------------------------ ord

func LessFn(s *common.Sx) func(a, b any) bool {
	switch head(s) {
	case "lt":
		return func(a, b any) bool { return a.(int) < b.(int) }
	case "gt":
		return func(a, b any) bool { return a.(int) > b.(int) }
	case "ltmod":
		m := s.List[1].Int()
		return func(a, b any) bool { return common.Emod(a.(int), m) < common.Emod(b.(int), m) }
	}
	panic("bad less function " + s.String())
}

func CmpFn(s *common.Sx) func(a, b any) int {
	cmp := func(k int) func(a, b any) int {
		return func(a, b any) int {
			if a.(int) < b.(int) {
				return -k
			}
			if a.(int) > b.(int) {
				return k
			}
			return 0
		}
	}
	switch head(s) {
	case "cmp":
		return cmp(1)
	case "cmpscaled":
		return cmp(s.List[1].Int())
	case "cmpmod":
		m := s.List[1].Int()
		return func(a, b any) int { return common.Emod(a.(int), m) - common.Emod(b.(int), m) }
	}
	panic("bad compare function " + s.String())
}

func OrdOf(s *common.Sx) fp.Ord[any] {
	a := s.List
	t := TypeOf(s)
	switch head(s) {
	case "int":
		return BoxOrd(ord.Given[int]())
	case "string":
		return BoxOrd(ord.Given[string]())
	case "time":
		return BoxOrd[time.Time](ord.Time)
	case "hnil":
		return BoxOrd(ord.HNil)
	case "option":
		switch t.Leaf() {
		case "int":
			return BoxOrd(ord.Option(intOrd(a[1])))
		case "string":
			return BoxOrd(ord.Option(strOrd(a[1])))
		}
		return BoxOrd(ord.Option(OrdOf(a[1])))
	case "seq":
		switch t.Leaf() {
		case "int":
			return BoxOrd(ord.Seq(intOrd(a[1])))
		case "string":
			return BoxOrd(ord.Seq(strOrd(a[1])))
		}
		return BoxOrd(ord.Seq(OrdOf(a[1])))
	case "slice":
		switch t.Leaf() {
		case "int":
			return BoxOrd(ord.Slice(intOrd(a[1])))
		case "string":
			return BoxOrd(ord.Slice(strOrd(a[1])))
		}
		return BoxOrd(ord.Slice(OrdOf(a[1])))
	case "ptr":
		switch t.Leaf() {
		case "int":
			return BoxOrd(ord.Ptr(lazy.Done(intOrd(a[1]))))
		case "string":
			return BoxOrd(ord.Ptr(lazy.Call(func() fp.Ord[string] { return strOrd(a[1]) })))
		}
		inner := a[1]
		return BoxOrd(ord.Ptr(lazy.Call(func() fp.Ord[any] { return OrdOf(inner) })))
	case "hcons":
		return BoxOrd(ord.HCons[any, any](OrdOf(a[1]), OrdOf(a[2])))
	case "tuple":
		es := []fp.Ord[any]{}
		for _, x := range a[1:] {
			es = append(es, OrdOf(x))
		}
		return OrdTuple(es)
	case "contramap":
		return ord.ContraMap(OrdOf(a[2]), ContraFn(a[1].Atom, TypeOf(a[2])))
	case "givenfield":
		f := ContraFn(a[1].Atom, T0("int"))
		return ord.GivenField(func(v any) int { return f(v).(int) })
	case "asord":
		return as.Ord[any](LessFn(a[1]))
	case "fromcompare":
		return ord.FromCompare(CmpFn(a[1]))
	case "new":
		return ord.New(EqOf(a[1]), LessFn(a[2]))
	case "then":
		return OrdOf(a[1]).ThenComparing(OrdOf(a[2]))
	case "rev":
		return OrdOf(a[1]).Reversed()
	}
	panic("OrdOf: bad instance " + s.String())
}

// ------------------------------------------------------------------------------------ monoid / semigroup

// IsoFn returns fab, fba on ints.
func IsoFn(s *common.Sx) (func(int) int, func(int) int) {
	switch head(s) {
	case "neg":
		return func(x int) int { return -x }, func(x int) int { return -x }
	case "addk":
		k := s.List[1].Int()
		return func(x int) int { return x + k }, func(x int) int { return x - k }
	}
	panic("bad iso " + s.String())
}

func box1(v any) any   { return fp.Tuple1[any]{I1: v} }
func unbox1(v any) any { return v.(fp.Tuple1[any]).I1 }

func MonoidOf(s *common.Sx) fp.Monoid[any] {
	a := s.List
	switch head(s) {
	case "string":
		return BoxMonoid(monoid.String)
	case "sum":
		return BoxMonoid(monoid.Sum[int]())
	case "fpsum":
		return BoxMonoid(fp.Sum[int]())
	case "sumstr":
		return BoxMonoid(monoid.Sum[string]())
	case "product":
		return BoxMonoid(monoid.Product[int]())
	case "fpproduct":
		return BoxMonoid(fp.Product[int]())
	case "any":
		return BoxMonoid(monoid.Any)
	case "all":
		return BoxMonoid(monoid.All)
	case "unit":
		return BoxMonoid(monoid.Unit)
	case "hnil":
		return BoxMonoid(monoid.HNil)
	case "mergeseq":
		return BoxMonoid(monoid.MergeSeq[int]())
	case "mergeslice":
		return BoxMonoid(monoid.MergeSlice[int]())
	case "endo":
		return BoxMonoid(monoid.Endo[int]())
	case "mergegomap":
		return BoxMonoid(monoid.MergeGoMap[any, any]())
	case "mergemap":
		return BoxMonoid(monoid.MergeMap[any, any]())
	case "mergeset":
		return BoxMonoid(monoid.MergeSet[any]())
	case "option":
		switch TypeOf(s).Leaf() {
		case "int":
			return BoxMonoid(monoid.Option(UnboxMonoid[int](MonoidOf(a[1]))))
		case "string":
			return BoxMonoid(monoid.Option(UnboxMonoid[string](MonoidOf(a[1]))))
		}
		return BoxMonoid(monoid.Option(MonoidOf(a[1])))
	case "try":
		return BoxMonoid(monoid.Try(MonoidOf(a[1])))
	case "dual":
		return BoxMonoid(monoid.Dual(MonoidOf(a[1])))
	case "eval":
		return BoxMonoid(monoid.Eval(MonoidOf(a[1])))
	case "ptr":
		inner := a[1]
		switch TypeOf(s).Leaf() {
		case "int":
			return BoxMonoid(monoid.Ptr(lazy.Call(func() fp.Monoid[int] { return UnboxMonoid[int](MonoidOf(inner)) })))
		case "string":
			return BoxMonoid(monoid.Ptr(lazy.Call(func() fp.Monoid[string] { return UnboxMonoid[string](MonoidOf(inner)) })))
		}
		return BoxMonoid(monoid.Ptr(lazy.Call(func() fp.Monoid[any] { return MonoidOf(inner) })))
	case "hcons":
		return BoxMonoid(monoid.HCons[any, any](MonoidOf(a[1]), MonoidOf(a[2])))
	case "tuple":
		es := []fp.Monoid[any]{}
		for _, x := range a[1:] {
			es = append(es, MonoidOf(x))
		}
		return MonoidTuple(es)
	case "imap":
		if a[1].Atom == "box" {
			return monoid.IMap(MonoidOf(a[2]), box1, unbox1)
		}
		fab, fba := IsoFn(a[1])
		return monoid.IMap(MonoidOf(a[2]), func(x any) any { return fab(x.(int)) }, func(y any) any { return fba(y.(int)) })
	}
	panic("MonoidOf: bad instance " + s.String())
}

func SemigroupOf(s *common.Sx) fp.Semigroup[any] {
	a := s.List
	switch head(s) {
	case "sum":
		return BoxSemigroup(semigroup.Sum[int]())
	case "product":
		return BoxSemigroup(semigroup.Product[int](0, 0))
	case "endo":
		return BoxSemigroup(semigroup.Endo[int]())
	case "any":
		return BoxSemigroup(semigroup.Any)
	case "all":
		return BoxSemigroup(semigroup.All)
	case "m":
		return MonoidOf(a[1])
	case "dual":
		return BoxSemigroup(semigroup.Dual(SemigroupOf(a[1])))
	case "eval":
		return BoxSemigroup(semigroup.Eval(SemigroupOf(a[1])))
	case "ptr":
		inner := a[1]
		switch TypeOf(s).Leaf() {
		case "int":
			return BoxSemigroup(semigroup.Ptr(lazy.Call(func() fp.Semigroup[int] { return UnboxSemigroup[int](SemigroupOf(inner)) })))
		case "string":
			return BoxSemigroup(semigroup.Ptr(lazy.Call(func() fp.Semigroup[string] { return UnboxSemigroup[string](SemigroupOf(inner)) })))
		}
		return BoxSemigroup(semigroup.Ptr(lazy.Call(func() fp.Semigroup[any] { return SemigroupOf(inner) })))
	case "option":
		switch TypeOf(s).Leaf() {
		case "int":
			return BoxSemigroup(semigroup.Option(UnboxSemigroup[int](SemigroupOf(a[1]))))
		case "string":
			return BoxSemigroup(semigroup.Option(UnboxSemigroup[string](SemigroupOf(a[1]))))
		}
		return BoxSemigroup(semigroup.Option(SemigroupOf(a[1])))
	case "imap":
		if a[1].Atom == "box" {
			return semigroup.IMap(SemigroupOf(a[2]), box1, unbox1)
		}
		fab, fba := IsoFn(a[1])
		return semigroup.IMap(SemigroupOf(a[2]), func(x any) any { return fab(x.(int)) }, func(y any) any { return fba(y.(int)) })
	}
	panic("SemigroupOf: bad instance " + s.String())
}

var _ = hlist.Empty
