module verifharness

go 1.23

require github.com/csgura/fp v0.0.0

replace github.com/csgura/fp => /repo
