// Package historychk: model-free metamorphic check "a value behaves the same whatever its HISTORY".
//
// fp.Try (and fp.Option) values are structs with internal fields; two values that are observably the same Success(v) / Failure(e)
// may have been built along different routes (a constructor, Failure(..).Recover(..), Map, MapError, FlatMap, try.Of, a StateT run).
// C01 / C02 / C17 quantify over VALUES, not over construction routes: every library function and method must treat the
// route-variants of one value alike.  Seeds C02-13 / C17-12 (round 5): Try.Recover rewritten in the mutate-the-copy style leaves the
// old error in the recovered Success; Try.Unapply / StateT.Recover then look at the raw field instead of IsSuccess() - each site
// harmless alone, together a recovered success is reported as a failure (try.Traverse_ stops, StateT.Recover runs its handler).
package historychk

import (
	"fmt"

	"github.com/csgura/fp"
	"github.com/csgura/fp/iterator"
	"github.com/csgura/fp/option"
	"github.com/csgura/fp/statet"
	"github.com/csgura/fp/try"
	. "verifharness/common"
)

type variant struct {
	name string
	t    fp.Try[int]
}

// route-variants of Success(v) and of Failure(e)
func variants(ok bool, v int, e error) []variant {
	if ok {
		return []variant{
			{"Success", fp.Success(v)},
			{"Failure.Recover", fp.Failure[int](E(9)).Recover(func(error) int { return v })},
			{"Failure.RecoverWith", fp.Failure[int](E(9)).RecoverWith(func(error) fp.Try[int] { return fp.Success(v) })},
			{"Failure.RecoverCase", fp.Failure[int](E(9)).RecoverCase(func(error) bool { return true }, func(error) int { return v })},
			{"Failure.Or", fp.Failure[int](E(9)).Or(func() fp.Try[int] { return fp.Success(v) })},
			{"Failure.OrTry", fp.Failure[int](E(9)).OrTry(fp.Success(v))},
			{"Success.Map", fp.Success(v + 1).Map(func(x int) int { return x - 1 })},
			{"Success.FlatMap", fp.Success(v + 1).FlatMap(func(x int) fp.Try[int] { return fp.Success(x - 1) })},
			{"Success.MapError", fp.Success(v).MapError(func(err error) error { return E(8) })},
			{"try.Of", try.Of(func() int { return v })},
			{"try.FromOption", try.FromOption(option.Some(v))},
			{"StateT.Recover.Eval", statet.FromTry[int](fp.Failure[int](E(9))).Recover(func(error) int { return v }).Eval(0)},
		}
	}
	return []variant{
		{"Failure", fp.Failure[int](e)},
		{"Success.FlatMap", fp.Success(1).FlatMap(func(int) fp.Try[int] { return fp.Failure[int](e) })},
		{"Failure.MapError", fp.Failure[int](E(9)).MapError(func(error) error { return e })},
		{"Failure.RecoverWith", fp.Failure[int](E(9)).RecoverWith(func(error) fp.Try[int] { return fp.Failure[int](e) })},
		{"Failure.Map", fp.Failure[int](e).Map(func(x int) int { return x + 1 })},
		{"Failure.Or", fp.Failure[int](E(9)).Or(func() fp.Try[int] { return fp.Failure[int](e) })},
		{"try.Call", try.Call(func() (int, error) { return 0, e })},
		{"StateT.Eval", statet.FromTry[int](fp.Failure[int](e)).Eval(0)},
	}
}

func guard(f func() string) (out string) {
	defer func() {
		if p := recover(); p != nil {
			out = fmt.Sprintf("panic(%v)", ShowPanic(p))
		}
	}()
	return f()
}

type observer struct {
	name string
	f    func(t fp.Try[int]) string
}

func observers() []observer {
	h := func(log *[]string) func(error) int {
		return func(err error) int { *log = append(*log, "h:"+ShowErr(err)); return 77 }
	}
	return []observer{
		{"IsSuccess", func(t fp.Try[int]) string { return fmt.Sprint(t.IsSuccess(), t.IsFailure()) }},
		{"Show", func(t fp.Try[int]) string { return Show(t) }},
		{"Unapply", func(t fp.Try[int]) string { v, err := t.Unapply(); return fmt.Sprintf("(%d,%s)", v, ShowErr(err)) }},
		{"Get", func(t fp.Try[int]) string { return fmt.Sprint(t.Get()) }},
		{"Failed", func(t fp.Try[int]) string { return Show(t.Failed()) }},
		{"OrElse", func(t fp.Try[int]) string { return fmt.Sprint(t.OrElse(-1), t.OrZero()) }},
		{"Recover", func(t fp.Try[int]) string { var lg []string; r := t.Recover(h(&lg)); return Show(r) + fmt.Sprint(lg) }},
		{"RecoverWith", func(t fp.Try[int]) string {
			var lg []string
			r := t.RecoverWith(func(err error) fp.Try[int] { lg = append(lg, ShowErr(err)); return fp.Success(5) })
			return Show(r) + fmt.Sprint(lg)
		}},
		{"Or", func(t fp.Try[int]) string {
			n := 0
			r := t.Or(func() fp.Try[int] { n++; return fp.Success(6) })
			return Show(r) + fmt.Sprint(n)
		}},
		{"MapError", func(t fp.Try[int]) string { return Show(t.MapError(func(error) error { return E(3) })) }},
		{"Map", func(t fp.Try[int]) string { return Show(t.Map(func(x int) int { return x * 2 })) }},
		{"Foreach", func(t fp.Try[int]) string { n := 0; t.Foreach(func(int) { n++ }); return fmt.Sprint(n) }},
		{"ToSeq", func(t fp.Try[int]) string { return Show(t.ToSeq()) }},
		{"try.Map", func(t fp.Try[int]) string { return Show(try.Map(t, func(x int) int { return x + 10 })) }},
		{"try.FlatMap", func(t fp.Try[int]) string {
			n := 0
			r := try.FlatMap(t, func(x int) fp.Try[int] { n++; return fp.Success(x + 1) })
			return Show(r) + fmt.Sprint(n)
		}},
		{"statet.GetST.Recover", func(t fp.Try[int]) string {
			var lg []string
			r, s := statet.GetST(func(int) fp.Try[int] { return t }).Recover(h(&lg)).Run(4)
			return Show(r) + fmt.Sprint(s, lg)
		}},
		{"try.Sequence", func(t fp.Try[int]) string { return Show(try.Sequence([]fp.Try[int]{fp.Success(1), t, fp.Success(2)})) }},
		{"try.Map2", func(t fp.Try[int]) string {
			return Show(try.Map2(t, fp.Failure[int](E(2)), func(a, b int) int { return a + b })) + Show(try.Map2(fp.Success(1), t, func(a, b int) int { return a + b }))
		}},
		{"try.Traverse_", func(t fp.Try[int]) string {
			calls := []int{}
			err := try.Traverse_(iterator.Of(1, 2, 3), func(a int) fp.Try[int] {
				calls = append(calls, a)
				if a == 2 {
					return t
				}
				return fp.Success(a)
			})
			return ShowErr(err) + fmt.Sprint(calls)
		}},
		{"try.TraverseSeq", func(t fp.Try[int]) string {
			calls := []int{}
			r := try.TraverseSeq([]int{1, 2, 3}, func(a int) fp.Try[int] {
				calls = append(calls, a)
				if a == 2 {
					return t
				}
				return fp.Success(a)
			})
			return Show(r) + fmt.Sprint(calls)
		}},
		{"statet.FromTry.Run", func(t fp.Try[int]) string {
			r, s := statet.FromTry[int](t).Run(4)
			return Show(r) + fmt.Sprint(s)
		}},
		{"StateT.Recover", func(t fp.Try[int]) string {
			var lg []string
			r, s := statet.FromTry[int](t).Recover(h(&lg)).Run(4)
			return Show(r) + fmt.Sprint(s, lg)
		}},
		{"StateT.RecoverT", func(t fp.Try[int]) string {
			var lg []string
			r, s := statet.FromTry[int](t).RecoverT(func(err error) fp.Try[int] { lg = append(lg, ShowErr(err)); return fp.Success(5) }).Run(4)
			return Show(r) + fmt.Sprint(s, lg)
		}},
		{"StateT.RecoverWithState", func(t fp.Try[int]) string {
			var lg []string
			r, s := statet.FromTry[int](t).RecoverWithState(func(st int, err error) int { lg = append(lg, fmt.Sprint(st)+ShowErr(err)); return 5 }).Run(4)
			return Show(r) + fmt.Sprint(s, lg)
		}},
		{"StateT.RecoverWith", func(t fp.Try[int]) string {
			var lg []string
			r, s := statet.FromTry[int](t).RecoverWith(func(err error) fp.StateT[int, int] { lg = append(lg, ShowErr(err)); return statet.Pure[int](5) }).Run(4)
			return Show(r) + fmt.Sprint(s, lg)
		}},
		{"StateT.RecoverCase", func(t fp.Try[int]) string {
			var lg []string
			r, s := statet.FromTry[int](t).RecoverCase(func(error) bool { return true }, h(&lg)).Run(4)
			return Show(r) + fmt.Sprint(s, lg)
		}},
		{"statet.FlatMap.Recover", func(t fp.Try[int]) string {
			var lg []string
			p := statet.FlatMap(statet.Get[int](), func(int) fp.StateT[int, int] { return statet.FromTry[int](t) })
			r, s := p.Recover(h(&lg)).Run(4)
			return Show(r) + fmt.Sprint(s, lg)
		}},
	}
}

// Run evaluates every observer on every route-variant of Success(v) / Failure(e) and compares with the constructor-built value.
// key is the direct-check key prefix (per property); returns the number of comparisons.
func Run(sink *Sink, key string) int {
	checks := 0
	obs := observers()
	for _, c := range []struct {
		ok bool
		v  int
		e  error
	}{{true, 3, nil}, {true, 0, nil}, {false, 0, E(4)}} {
		vs := variants(c.ok, c.v, c.e)
		for _, o := range obs {
			want := guard(func() string { return o.f(vs[0].t) })
			for _, vr := range vs[1:] {
				checks++
				got := guard(func() string { return o.f(vr.t) })
				if got != want {
					sink.DirectFail(key+".value-with-history", fmt.Sprintf("(law history-independent %s on %s built-by %s)", o.name, Show(vs[0].t), vr.name),
						fmt.Sprintf("%s gives %s on the value built by %s, %s on the same value built by %s", o.name, got, vr.name, want, vs[0].name))
				}
			}
		}
	}
	return checks
}
