#!/usr/bin/env python3
"""Hand mutations of immutable/map.go of the kind "in-place write on the persistent path" (C04).
For each: build the hamt harness against the mutated repo, run seeds 1000..1003 (-n 4000), pipe the ops
through the oracle, and report
  lines   : oracle/impl lines that differ
  al-only : differing lines whose ONLY difference is the `al=` token (sharing comparison alone)
  direct  : direct (model-free) failures by key (hamt.persistence = re-read-all-versions check)
The file is restored after every mutation."""
import os, re, subprocess, sys, json, collections
WS = os.path.dirname(os.path.dirname(os.path.abspath(__file__)))
SRC = os.path.join(WS, 'repo/immutable/map.go')
ENV = dict(os.environ, GOFLAGS='-mod=mod', GOPROXY='off', GOSUMDB='off', GOTOOLCHAIN='local')
ORACLE = os.path.join(WS, 'lean/.lake/build/bin/oracle_hamt')

def nth(s, old, new, n):
    idx = -1
    for _ in range(n + 1):
        idx = s.index(old, idx + 1)
    return s[:idx] + new + s[idx + len(old):]

# (name, old, new, which occurrence)
MUTS = [
 ('M01 value.set: `if mutable` guard dropped (n.value = value on the persistent path)',
  '\t\tif mutable {\n\t\t\tn.value = value', '\t\tif true {\n\t\t\tn.value = value', 0),
 ('M02 bitmap.set: in-place branch taken on the persistent path',
  '\t// Update in-place if mutable.\n\tif mutable {\n\t\tif exists {\n\t\t\tn.nodes[idx] = newNode', '\t// Update in-place if mutable.\n\tif true {\n\t\tif exists {\n\t\t\tn.nodes[idx] = newNode', 0),
 ('M03 harray.set: clone() skipped', '\tother := n\n\tif !mutable {\n\t\tother = n.clone()\n\t}\n\n\t// Update child node (and update size, if new).',
  '\tother := n\n\n\t// Update child node (and update size, if new).', 0),
 ('M04 collision.set: entries overwritten/appended in place on the persistent path',
  '\tif mutable {\n\t\tif idx := n.indexOf(key, h); idx == -1 {', '\tif true {\n\t\tif idx := n.indexOf(key, h); idx == -1 {', 0),
 ('M05 Removed: later keys deleted with mutable=true',
  '\tfor _, k := range key {\n\t\tret = ret.delete(k, false)', '\tfor i, k := range key {\n\t\tret = ret.delete(k, i > 0)', 0),
 ('M06 setBuilder.Add: in place after Build (code before 5a0c6c4)', 'r.m.set(v, true, !r.shared)', 'r.m.set(v, true, true)', 0),
 ('M07 array.set: in-place branch taken on the persistent path',
  '\tif mutable {\n\t\tif idx != -1 {\n\t\t\tn.entries[idx] = mapEntry[K, V]{key, value}', '\tif true {\n\t\tif idx != -1 {\n\t\t\tn.entries[idx] = mapEntry[K, V]{key, value}', 0),
 ('M08 hamt.set: header never cloned', '\tother := m\n\tif !mutable {\n\t\tother = m.clone()\n\t}\n\tother.hasher = hasher', '\tother := m\n\tother.hasher = hasher', 0),
 ('M09 bitmap.delete: copy of the node skipped (other.nodes[idx] = newChild on n)',
  '\tother := n\n\tif !mutable {\n\t\tother = &mapBitmapIndexedNode[K, V]{bitmap: n.bitmap, nodes: make([]mapNode[K, V], len(n.nodes))}\n\t\tcopy(other.nodes, n.nodes)\n\t}', '\tother := n', 0),
 ('M10 harray.delete: clone() skipped', '\tother := n\n\tif !mutable {\n\t\tother = n.clone()\n\t}\n\n\t// Return copy of node with child updated.', '\tother := n\n\n\t// Return copy of node with child updated.', 0),
 ('M11 collision.delete: entry removed in place on the persistent path',
  '\t// Remove entry in-place if mutable.\n\tif mutable {', '\t// Remove entry in-place if mutable.\n\tif true {', 0),
 ('M12 bitmap.set (copying path): new node ALIASES the old nodes slice (no make+copy)',
  '\t\tother.nodes = make([]mapNode[K, V], len(n.nodes))\n\t\tcopy(other.nodes, n.nodes)\n\t\tother.nodes[idx] = newNode', '\t\tother.nodes = n.nodes\n\t\tother.nodes[idx] = newNode', 0),
 ('M13 mapBuilder.build keeps b.m (builder stays usable, in place)', '\tm := b.m\n\tb.m = nil\n\treturn m', '\tm := b.m\n\treturn m', 0),
 ('M14 hamt.delete of an absent key returns a CLONE of the header (API-equivalent, sharing differs)',
  '\tif !resized {\n\t\treturn m\n\t}', '\tif !resized {\n\t\treturn m.clone()\n\t}', 0),
 ('M15 array.delete: in-place branch taken on the persistent path',
  '\t// Update in-place, if mutable.\n\tif mutable {\n\t\tcopy(n.entries[idx:], n.entries[idx+1:])', '\t// Update in-place, if mutable.\n\tif true {\n\t\tcopy(n.entries[idx:], n.entries[idx+1:])', 0),
 ('M16 array expansion with mutable=true (equivalent: the nodes are fresh)',
  'node = node.set(entry.key, entry.value, 0, h.Hash(entry.key), h, false, resized)', 'node = node.set(entry.key, entry.value, 0, h.Hash(entry.key), h, true, resized)', 0),
 ('M17 value.set (copying path) returns n itself when the value is unchanged-looking: shares instead of copying',
  '\t\treturn newMapValueNode(n.keyHash, key, value)\n\t}', '\t\tn2 := newMapValueNode(n.keyHash, key, value)\n\t\t_ = n2\n\t\tn.key, n.value = key, value\n\t\treturn n\n\t}', 0),
]

def run(cmd, **kw):
    return subprocess.run(cmd, env=ENV, capture_output=True, text=True, **kw)

def strip_al(line):
    return re.sub(r' al=\S*', '', line)

def evaluate(seeds, n):
    b = run(['go', 'build', '-tags', 'verif', '-o', os.path.join(WS, 'h_hamt_mut'), './cmd/hamt'], cwd=os.path.join(WS, 'harness'))
    if b.returncode != 0:
        return dict(build='FAILED: ' + b.stderr[-400:])
    tot = collections.Counter()
    direct = collections.Counter()
    for s in seeds:
        out = os.path.join(WS, 'out_mut')
        os.makedirs(out, exist_ok=True)
        for f in ('ops.txt', 'impl.txt', 'direct.txt'):
            try: os.remove(os.path.join(out, f))
            except FileNotFoundError: pass
        try:
            r = subprocess.run([os.path.join(WS, 'h_hamt_mut'), '-seed', str(s), '-n', str(n), '-out', out], env=ENV,
                               stdout=subprocess.PIPE, stderr=subprocess.DEVNULL, text=True, timeout=300)
        except subprocess.TimeoutExpired:
            tot['timeout'] += 1
            continue
        if r.returncode != 0:
            tot['crash'] += 1
        ops = open(os.path.join(out, 'ops.txt')).read()
        o = subprocess.run([ORACLE], input=ops, capture_output=True, text=True).stdout.splitlines()
        impl = open(os.path.join(out, 'impl.txt')).read().splitlines()
        for a, b_ in zip(o, impl):
            if a != b_:
                tot['lines'] += 1
                if strip_al(a) == strip_al(b_):
                    tot['al-only'] += 1
        tot['lines'] += abs(len(o) - len(impl))
        try:
            for l in open(os.path.join(out, 'direct.txt')):
                direct[l.split('\t')[0]] += 1
        except FileNotFoundError:
            pass
    return dict(tot=dict(tot), direct=dict(direct))

def main():
    only = sys.argv[1:]
    orig = open(SRC).read()
    try:
        print('baseline', evaluate([1000, 1001, 1002, 1003], 4000), flush=True)
        for name, old, new, k in MUTS:
            if only and not any(name.startswith(x) for x in only):
                continue
            try:
                mutated = nth(orig, old, new, k)
            except ValueError:
                print(name, ': PATTERN NOT FOUND', flush=True)
                continue
            open(SRC, 'w').write(mutated)
            t = run(['go', 'test', './immutable/...'], cwd=os.path.join(WS, 'repo'))
            unit = 'pass' if t.returncode == 0 else 'FAIL'
            res = evaluate([1000, 1001, 1002, 1003], 4000)
            print(name, '| unit tests:', unit, '|', json.dumps(res), flush=True)
            open(SRC, 'w').write(orig)
    finally:
        open(SRC, 'w').write(orig)

main()
