# ---- to be pasted into bin/checks_config.py next to facts_tuplegen (work package GO2LEAN2, session 6) ------------------
#
# 1. add FpVerif.Spec.C14ArityGen to the `spec` list of C14
# 2. replace `facts=facts_tuplegen` of C14 by `facts=facts_c14` (C09/C10/C11/C18 keep facts_tuplegen)
# 3. copy harness/cmd/go2lean2/, lean/FpVerif/Spec/C14ArityGen.lean, bin/mk_c14aritygen.py; add FpVerif/Gen/ArityGen.lean to
#    .gitignore (it is regenerated on every run, like TupleGen.lean)

def facts_aritygen(repo, lean):
    """Tie A, second part: harness/cmd/go2lean2 TRANSLATES every declaration of the generated pure arity families of C14
    (tuple_gen.go, labelled_gen.go, func_gen.go, as/func_gen.go, as/tuple_gen.go, as/labelled_gen.go, curried/curried_gen.go,
    hlist/{of,case,lift,reverse}_gen.go, product/tuple_gen.go, fn1/arrow_func_gen.go, unit/func_gen.go) found in the working tree,
    plus the hand-written arity-1/2 members they bottom out in, into Lean definitions (FpVerif/Gen/ArityGen.lean, not under
    version control); the committed theorems of Spec/C14ArityGen.lean state, per family and arity, that the translated function
    computes the arity-generic model of Model/Arity.lean at n := N, pin the set of (family, arity) pairs found and the exception
    list, and transport C14's property theorems to the translated code."""
    out = os.path.join(lean, 'FpVerif', 'Gen', 'ArityGen.lean')
    os.makedirs(os.path.dirname(out), exist_ok=True)
    harness = os.path.join(os.path.dirname(lean), 'harness')
    env = dict(os.environ, GOFLAGS='-mod=mod', GOPROXY='off', GOSUMDB='off', GOTOOLCHAIN='local')
    tmp_out = out + '.new.%d' % os.getpid()
    p = subprocess.run(['go', 'run', './cmd/go2lean2', repo, tmp_out], cwd=harness, env=env, stdout=subprocess.PIPE,
                       stderr=subprocess.STDOUT, text=True)
    if p.returncode != 0 or not os.path.exists(tmp_out):
        if os.path.exists(out):
            os.remove(out)
        return dict(error='go2lean2 failed: ' + p.stdout[-800:], obligations=1)
    # keep the old file (and its build products) when the translation did not change
    if not os.path.exists(out) or open(out).read() != open(tmp_out).read():
        os.replace(tmp_out, out)
    else:
        os.remove(tmp_out)
    info = json.loads(p.stdout.strip().split('\n')[-1])
    res = dict(translated=info['translated'], untranslatable=info['untranslatable'], exceptions=info['exceptions'],
               families={k: [min(v), max(v)] for k, v in info['families'].items()}, obligations=1,
               generated='FpVerif/Gen/ArityGen.lean')
    if info['untranslatable']:
        res['error'] = 'go2lean2: outside the translated fragment: ' + json.dumps(info['untranslatable'])[:800]
    return res


def facts_c14(repo, lean):
    """both regenerated translation ties of C14"""
    a, b = facts_tuplegen(repo, lean), facts_aritygen(repo, lean)
    res = dict(tuplegen={k: v for k, v in a.items() if k != 'error'}, aritygen={k: v for k, v in b.items() if k != 'error'},
               obligations=a.get('obligations', 0) + b.get('obligations', 0),
               generated='FpVerif/Gen/TupleGen.lean FpVerif/Gen/ArityGen.lean')
    errs = [r['error'] for r in (a, b) if r.get('error')]
    if errs:
        res['error'] = ' | '.join(errs)
    return res
