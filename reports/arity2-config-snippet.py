# ARITY2 — snippet for bin/checks_config.py
#
# new harness (add next to ARITY_H):
MISC_H = H('misc', 'oracle_misc', 6000, 600000, spec_level=True)
#
# C14: append to spec      : 'FpVerif.Spec.C14Misc', 'FpVerif.Spec.C14MiscFut'
#      append to harnesses : MISC_H
#      (the arity harness now also has lazy.FuncN/1..3 and unit.FuncN/0; the future harness the ops traverseFunc,
#       monoidFut, monoidFutEmpty and round-robin arities; nothing to change for them in the config)
#      append to modelled  : 'Non-indexed conversions and adapters (Model/Misc.lean, Spec/C14Misc.lean, misc harness): '
#          'as.PartialFunc/SeqNonNil/Ptr/Interface/Any/InstanceOf/Named/NamedWithTag/MapEntry/Left/Right/Generic/Supplier/Predicate, '
#          'fp.Predicate.Negate/And/Or, fp.Not/And/Or, fp.PartialFunc.Unapply/OrElse, fp.ConvertNumber (integer types), fp.IsInstanceOf, '
#          'fp.ConstS/With/Test/TestWith/Max, fp.RuntimeNamed accessors, product.FromHNil/MapKey/MapValue/LiftKey/LiftValue/Split, '
#          'hlist.Unapply, unit.Func0/Failure, lazy.Func1..3 (memoised Call), future.TraverseFunc, monoid.Future (Model/FutureMisc.lean).'
#      append to assumptions: 'type assertions are modelled through the relation hasType (dynamic type x target type); the harness '
#          'instantiates it at int, string, a Named int, an error type, fp.Unit, nil and the interfaces fp.Named, error, any',
#          'fp.ConvertNumber / fp.Max: integer (and string) instantiations only; floating point members of ImplicitNum are not modelled',
#          'as.Ptr: pointers are indices into a list-shaped heap (freshness and non-aliasing, no address arithmetic)'
#
# C11: append to spec      : 'FpVerif.Spec.C14Misc'      (toMonoid_lawful_iff, semigroupFunc_as_monoid_lawful_iff, toMonoid_def, …)
#      append to harnesses : H('misc', 'oracle_misc', 3000, 300000, spec_level=True)
#      replace in modelled : 'Not modelled: monoid.Future (not in the property).' ->
#          'monoid adapters SemigroupFunc.Empty/Curried, EmptyFunc.Empty, monoid.ToMonoid/Curried (both packages): Model/Misc.lean; '
#          'monoid.Future: Model/FutureMisc.lean, Spec/C14MiscFut.lean (through the future harness).'
#
# C06: append to spec      : 'FpVerif.Spec.C14MiscFut'   (monoidFuture_every_schedule, monoidFuture_exact_at_quiescence, evalS_traverseFunc)
#      (harness list unchanged: the future harness carries the new ops)
