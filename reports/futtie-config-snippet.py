# snippet for bin/checks_config.py (work package FUTTIE): properties C06, C14
#   CHECKS['C06']['facts'] = facts_all(<existing>, facts_futgen) ; likewise C14;  Spec module to build: FpVerif.Spec.C06Gen
import json, os, subprocess

FUTGEN_EXPECTED_EXCEPTIONS = ['Flap', 'With', 'Chain1', 'Applicative1', 'Await', 'getExecutor',
                              'Flap2', 'Flap3', 'Flap4', 'Flap5', 'Flap6', 'Flap7', 'Flap8', 'Flap9']


def facts_futgen(repo, lean):
    """Tie A for the derived future combinators: harness/cmd/fut2lean TRANSLATES every function of future/future_op.go and
    future/func_gen.go of the working tree whose body is a composition of other combinators into an FExpr-building Lean
    definition (FpVerif/Gen/FutGen.lean, not under version control); the committed theorems of Spec/C06Gen.lean state,
    function by function and arity by arity, that the translated definition is the model's derived program
    (Model/Future.lean, FutureChain.lean, FutureMisc.lean; `rfl` up to the closure encoding), that the set of functions
    and their classes is the expected one (`coverage`), and transport the left-to-right short-circuit theorems."""
    out = os.path.join(lean, 'FpVerif', 'Gen', 'FutGen.lean')
    os.makedirs(os.path.dirname(out), exist_ok=True)
    harness = os.path.join(os.path.dirname(lean), 'harness')
    env = dict(os.environ, GOFLAGS='-mod=mod', GOPROXY='off', GOSUMDB='off', GOTOOLCHAIN='local')
    tmp_out = out + '.new.%d' % os.getpid()
    p = subprocess.run(['go', 'run', './cmd/fut2lean', repo, tmp_out], cwd=harness, env=env, stdout=subprocess.PIPE,
                       stderr=subprocess.STDOUT, text=True)
    if p.returncode != 0 or not os.path.exists(tmp_out):
        if os.path.exists(out):
            os.remove(out)
        return dict(error='fut2lean failed: ' + p.stdout[-800:], obligations=1)
    if not os.path.exists(out) or open(out).read() != open(tmp_out).read():
        os.replace(tmp_out, out)
    else:
        os.remove(tmp_out)
    info = json.loads(p.stdout.strip().split('\n')[-1])
    res = dict(translated=len(info['translated']), variants=info.get('variants') or [], primitives=info['primitives'],
               methods=len(info.get('methods') or []), untranslatable=info['untranslatable'], obligations=1,
               generated='FpVerif/Gen/FutGen.lean', spec='FpVerif.Spec.C06Gen')
    unexpected = {k: v for k, v in info['untranslatable'].items() if k not in FUTGEN_EXPECTED_EXCEPTIONS}
    if unexpected:
        res['error'] = 'fut2lean: outside the translated fragment: ' + json.dumps(unexpected)[:600]
    return res
