# Work package HOF — additions to bin/checks_config.py, entry 'C06'
#
# 1. spec modules: add 'FpVerif.Spec.C06HO' (it imports the helper lemma files Lemmas/FutHO.lean, FutHOOrd.lean,
#    FutHOSound.lean, FutHOStep.lean, FutHOLive.lean, FutHOFrag.lean, FutHOUniq.lean; the last one and the Spec file itself
#    import the Mathlib-using Lemmas/FutDrain.lean / FutUniq.lean exactly like Spec/C06Drain.lean and Spec/C06Once.lean do —
#    nothing the oracle imports is touched: Oracle/Future.lean imports Model/* and Sexp only).
#
#    'C06': dict(
#        spec=['FpVerif.Spec.C06', 'FpVerif.Spec.C06Sound', 'FpVerif.Spec.C06Live', 'FpVerif.Spec.C06Chain',
#              'FpVerif.Spec.C06Drain', 'FpVerif.Spec.C06Once',
#              'FpVerif.Spec.C06HO',            # <-- new
#              'FpVerif.Spec.C14MiscFut', 'FpVerif.Spec.C05'],
#        harnesses=[H('future', 'oracle_future', 3000, 150000, spec_level=True, project=project_future),   # unchanged
#                   H('promise', 'oracle_promise', 4000, 400000)],
#
# 2. level_note: replace the sentence
#       'Not proved: futures of futures (Flatten/LiftM) are outside the first-order fragment of the theorems — covered by
#        the correspondence and direct checks.'
#    by
SPEC_ADD = ['FpVerif.Spec.C06HO']

LEVEL_NOTE_ADD = (
    'Spec/C06HO.lean: futures of futures (Successful of a future, Flatten, LiftM, LiftMN at every arity, FlatMethod1) are INSIDE the theorems: '
    'typed construction programs TExpr (erase = the FExpr that build runs), Try-level denotation den (Flatten = monadic join of the three-valued Try; '
    'den(LiftM fa ta) = bindOk (σ ta) (den ∘ fa); den(Flatten(Successful e)) = den e; no handles for programs over value futures: den_valRefs / srcE); '
    'for EVERY schedule: ho_built_future_sound / ho_built_future_below / ho_sound_every_schedule (a completed built future holds exactly the denotation '
    'over the statuses of the same state; at future-of-future type: its Try-level reading is below the denotation in the information order), '
    'ho_built_future_exact / ho_exact_at_quiescence (equality at quiescence), ho_eventually_exact (every strategy drains, then exact), '
    'ho_exactly_one_completer, ho_derived_complete_never_fails; the first-order theorem is a corollary (fo_ho, valid_of_fo, fo_built_future_sound_of_ho); '
    'seeded mutant C06-4 (LiftM2 binds its second argument first) refuted against the statements (liftM2_mutant_differs). '
    'Restriction of the fragment: a user function that receives a future as a VALUE may only return it (Flatten); Transform / Apply at future-of-future type are outside.'
)

# 3. the future harness (harness/cmd/future) and the oracle (lean/Oracle/Future.lean) gained four definition forms that nest futures of
#    futures — (flattenS D), (flattenS (flattenS D)), (flattenSS D), (liftMF D KF), (liftMM H KF KF2) — generated with 8 % of the definitions
#    (histogram keys 'ho.*').  No change of the H(...) line is needed; the PRNG stream of the generator changed, so evidence files keyed by
#    seed have to be regenerated once.
