# ---- snippet for bin/checks_config.py (work package TRANS) -------------------------------------------------------------
# New harness cmd/transx + oracle_transx (Oracle/TransX.lean).  One generated case costs ~10 µs on the Go side and ~8 µs in
# the oracle: 20000 cases per shard run in ~0.25 s, 1e6 in ~8 s.  `-prop` selects the direct (model-free) laws of one
# property, `-only` restricts the generated operations to the ones the property speaks about.

def TRANSX_H(prop, only=None):
    extra = ['-prop', prop] + (['-only', only] if only else [])
    return H('transx', 'oracle_transx', 20000, 1000000, spec_level=True,
             # most operations are short: an op with >= 2 operand groups is "non-trivial"
             nontrivial=lambda op, impl: op.count('(') >= 2,
             extra=dict(quick=extra, thorough=extra))

# CHECKS['C01']:
#   spec      += ['FpVerif.Spec.C01TExt']
#   harnesses += [TRANSX_H('C01')]
#   modelled  += ' Remaining transformer functions (Append/Concat/Get/IsEmpty/MakeString/NonEmpty/Scan SeqT, OrZero/OrPtr OptionT), '
#                'try.TraverseOption, try/option.FoldRight, option.ConstNone/Of/Ptr/String/NonZero/NonEmptySlice/ComposePure/FlatPtr/Deref/Pure0/Pure1, '
#                'fp.Option.All/Foreach/Unapply/OrZero/OrPtr/Ptr, fp.Try.All/OrZero, either.NotRight/Foreach: Model/TryOptExt.lean, Spec/C01TExt.lean, transx harness.'
#   assumptions += ['option.Of: "the interface is nil" and "the dynamic value is a nil chan/func/map/pointer/slice" are parameter predicates of the model '
#                   '(instantiated by the oracle on 14 argument shapes); pointers are modelled as Option (nil / target value), pointer identity is not',
#                   'fmt.Sprint inside Seq.MakeString is a parameter of the model (the oracle renders ints and nil)']
# CHECKS['C02']:
#   spec      += ['FpVerif.Spec.C02Ext']
#   harnesses += [TRANSX_H('C02')]
# CHECKS['C17']:
#   spec      += ['FpVerif.Spec.C17Ext']
#   harnesses += [TRANSX_H('C17', 'st.')]
#   modelled  += ' statet.Run/Merge/ApTry/ApOption: Model/StateTExt.lean, Spec/C17Ext.lean.'
# CHECKS_TC['C10']:
#   spec      += ['FpVerif.Spec.C10Ext']
#   harnesses += [TRANSX_H('C10', 'seqT.sort,seqT.min,seqT.max')]
#   modelled  += ' SortSeqT/MinSeqT/MaxSeqT of try/try_seqt.go (Spec/C10Ext.lean).'
#   assumptions += ['transx: SortSeqT is only run with orders whose Eqv elements are indistinguishable (sort.Sort is unstable); '
#                   'MinSeqT/MaxSeqT answers are rendered by the equivalence class of the result under the order used '
#                   '(C10 fixes "a least element", not which of several equivalent ones); membership and leastness are direct checks']
