# --- work package LAZY2LEAN: snippet for bin/checks_config.py -----------------------------------------------------------------------
# 1. add the function below next to facts_coregen
# 2. C16:  spec += ['FpVerif.Spec.C16Gen'];  facts = facts_all(facts_factx, facts_atom, facts_lazygen)
#    C01:  spec += ['FpVerif.Spec.C16Gen'];  facts = facts_all(facts_monadgen, facts_coregen, facts_lazygen)
# 3. bin/check setup must run the extractor once before the first `lake build` (as for CoreGen / TupleGen); Gen/ is git-ignored.
# 4. new committed files: lean/FpVerif/Model/EvalGenSupport.lean, lean/FpVerif/Spec/C16Gen.lean, harness/cmd/lazy2lean/main.go
#    (library modules only: no lakefile.toml entry, no new oracle / harness)
# 5. assumption text for C16 / C01: see LAZYGEN_ASSUMPTION below.

def facts_lazygen(repo, lean):
    """Tie A (lazy.Eval): harness/cmd/lazy2lean TRANSLATES the struct Eval and every function / method body found in lazy/*.go of the
    working tree (lazy.go, tailcall_gen.go; test files and verif-tagged files excluded) into FpVerif/Gen/LazyGen.lean (not under
    version control): the inductive type emitted for the struct (the defunctionalisation of Model/Eval.lean: leaf / cont / logged), Resume,
    FlatMap, Map, Get, Run (the `for` loop as a fuelled recursion with the same body), Map2, Map, FlatMap, Done, TailCall, Call, Memoize
    (= the memo-cell primitive), Func1..3, TailCall1..9.  The committed theorems of Spec/C16Gen.lean state, per declaration, that the
    translated definition is the hand-written model (through the isomorphism toModel / ofModel of the two inductive types), that the
    files contain nothing else (coverage, memoSites), and restate faithful / run_flatMap / run_tailCall / the monad laws / runLoop_spec
    for the translated definitions."""
    out = os.path.join(lean, 'FpVerif', 'Gen', 'LazyGen.lean')
    os.makedirs(os.path.dirname(out), exist_ok=True)
    harness = os.path.join(os.path.dirname(lean), 'harness')
    env = dict(os.environ, GOFLAGS='-mod=mod', GOPROXY='off', GOSUMDB='off', GOTOOLCHAIN='local')
    tmp_out = out + '.new.%d' % os.getpid()
    p = subprocess.run(['go', 'run', './cmd/lazy2lean', repo, tmp_out], cwd=harness, env=env, stdout=subprocess.PIPE,
                       stderr=subprocess.STDOUT, text=True)
    if p.returncode != 0 or not os.path.exists(tmp_out):
        if os.path.exists(out):
            os.remove(out)
        return dict(error='lazy2lean failed: ' + p.stdout[-800:], obligations=1)
    # keep the old file (and its build products) when the translation did not change
    if not os.path.exists(out) or open(out).read() != open(tmp_out).read():
        os.replace(tmp_out, out)
    else:
        os.remove(tmp_out)
    info = json.loads(p.stdout.strip().split('\n')[-1])
    res = dict(translated=info['translated'], untranslatable=info['untranslatable'], exceptions=sorted(info['exceptions']),
               memo_sites=info['memo_sites'], types=info['types'], obligations=2, generated='FpVerif/Gen/LazyGen.lean')
    if info['untranslatable']:
        res['error'] = 'lazy2lean: outside the translated fragment: ' + json.dumps(info['untranslatable'])[:800]
        return res
    # second obligation: every translated declaration has its committed theorem (<name>_is_model or <name>_def; `Eval.X` -> `Eval_X`)
    spec = open(os.path.join(lean, 'FpVerif', 'Spec', 'C16Gen.lean')).read()
    gen = open(out).read()
    m = re.search(r'^def translated : List String := \[(.*)\]$', gen, re.M)
    names = re.findall(r'"([^"]+)"', m.group(1)) if m else []
    missing = [n for n in names
               if not re.search(r'^theorem %s_(is_model|def)\b' % re.escape(n.replace('.', '_')), spec, re.M)]
    if not names or missing:
        res['error'] = 'lazy2lean: translated declarations without a committed theorem: ' + ', '.join(missing or ['<none translated>'])
    return res


LAZYGEN_ASSUMPTION = (
    'lazy2lean (Tie A for lazy/lazy.go): the translator\'s reading of the fragment is trusted - the struct Eval{firstFunc, getNextFunc} as the '
    'inductive leaf (getNextFunc == nil) / cont / logged (the events a user function emitted when it produced the Eval: a function value '
    'returning an Eval that is stored in a field or received as a parameter is `A -> Eval T`, one in result position is `A -> W (Eval T)`); '
    'function values returning plain values are writer computations bound in Go\'s evaluation order; function-typed PARAMETERS are non-nil; '
    '`x := y` is an alias, `=` a re-binding (rejected when a closure captures the variable); `for { ... }` is a fuelled recursion with the '
    'same body; panics are not part of this tie (Model/EvalPanic, cmd/memopanic); `Memoize` in its one accepted shape is the transparent '
    'memo cell `memoCell` (first request of a fresh cell; an Eval requested twice in one run, e.g. Map2(a, a, f), is the subject of '
    'Model/EvalPanic.lean + cmd/memopanic, not of this tie); go/ast only - Go\'s type checker is trusted for well-typedness, Lean re-checks '
    'the translated definitions')
