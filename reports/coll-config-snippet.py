# Snippet for bin/checks_config.py (work package COLL).
# 1. add next to project_iter:

def project_coll(line):
    """property-level part of a coll answer (cmd/coll): the values every call / traversal returned (incl. panics), the shared
    backing table after the call (T=…) and the denotation (den=…).  The order of callback events and the pull counters
    (# id=n) are compared too (the model mirrors the code statement by statement), but a difference ONLY there is a
    correspondence break, not a failing input of C01."""
    parts = line.split(' || ')
    vals = tuple(p.split(' | ')[0] for p in parts)
    t = _re.search(r' T=\[[^\]]*\]', line)
    return (vals, t.group(0) if t else '')

COLL_H = H('coll', 'oracle_coll', 4000, 400000, spec_level=True, project=project_coll)

# 2. in CHECKS['C01']:   spec += ['FpVerif.Spec.C01Coll'];   harnesses += [COLL_H]
#    and append to 'modelled':
#      ' Collection monads seq / iterator / list: FlatMap+unit laws and every derived combinator (Ap, Map2, Flatten, Lift, LiftM, '
#      'Compose, ComposePure, FilterMap, Concat, Flap, Flap2, FlapMap, Method1, Method2) in Model/CollMonad.lean (seq, iterator '
#      'machines with ONE shared one-shot iterator), Model/CollList.lean (lazy list heap with function / list elements), '
#      'Spec/C01Coll.lean (95 theorems incl. lx_eval_den), coll harness (views of a shared backing table, returned functions applied twice).'
#    and to 'assumptions':
#      'coll harness: the static-type glue (convIt/boxIt/convL/boxL wrappers that only assert element types) is transparent'
# 3. in CHECKS['C12'] (optional, the iterator / list parts re-use the C12 machines and lemmas):
#      spec += ['FpVerif.Spec.C01Coll'];  harnesses += [COLL_H]
