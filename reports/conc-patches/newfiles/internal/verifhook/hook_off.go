//go:build !verif

package verifhook

func Spawn(run func()) bool { return false }

func Yield(point string) {}
