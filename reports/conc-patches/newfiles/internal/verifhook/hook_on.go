//go:build verif

// Package verifhook holds the hooks through which a verification harness (build tag `verif`)
// takes over task spawning and observes the yield points of the lock-free code. With the tag
// off every function here has an empty body and is inlined away.
package verifhook

// SpawnHook, when set, owns the tasks handed to the default (goroutine) executors: when it
// returns true the executor does not start a goroutine.
var SpawnHook func(run func()) bool

func Spawn(run func()) bool {
	if h := SpawnHook; h != nil {
		return h(run)
	}
	return false
}

// YieldHook, when set, is called before every access to shared memory of the concurrent data
// structures (atomic Get/Load/Store/CompareAndSwap, the append in dispatchOrAddCallback, the
// entry points and the publication step of CopyOnWriteMap) with the name of the point.
var YieldHook func(point string)

func Yield(point string) {
	if h := YieldHook; h != nil {
		h(point)
	}
}
