//go:build verif

package fp

import "github.com/csgura/fp/internal/verifhook"

// VerifSetSpawnHook installs h as the owner of tasks of the default executors (see verifhook).
func VerifSetSpawnHook(h func(run func()) bool) { verifhook.SpawnHook = h }

// VerifSetYieldHook installs h as the yield hook (see verifhook).
func VerifSetYieldHook(h func(point string)) { verifhook.YieldHook = h }
