# work package TCTIE — to be merged into /verif/bin/checks_config.py
#
# 1. add facts_tcgen and facts_tc (below) next to facts_tuplegen;
# 2. in CHECKS_TC (C09, C10, C11, C18) replace `facts=facts_tuplegen` by `facts=facts_tc` and extend `spec`:
#       C09: + 'FpVerif.Spec.C09Gen', 'FpVerif.Spec.C09GenHash', 'FpVerif.Spec.C09GenPred', 'FpVerif.Spec.TCGenCover'
#       C10: + 'FpVerif.Spec.C10Gen', 'FpVerif.Spec.TCGenCover'      (C10Gen imports C09Gen: ord.Seq's Eqv part is eq.Seq)
#       C11: + 'FpVerif.Spec.C11Gen', 'FpVerif.Spec.TCGenCover'
#       C18: + 'FpVerif.Spec.C18Gen', 'FpVerif.Spec.TCGenCover'
#    (C14 keeps facts_tuplegen / Spec.C14Gen only.)
# 3. new committed Lean files: FpVerif/Model/GoSem.lean, FpVerif/Lemmas/GoSemLoops.lean, FpVerif/Lemmas/TCGenCheck.lean,
#    FpVerif/Spec/C09Gen.lean, C09GenHash.lean, C09GenPred.lean, C10Gen.lean, C11Gen.lean, C18Gen.lean, TCGenCover.lean;  FpVerif/Gen/TCGen.lean is generated
#    (add it to .gitignore next to Gen/TupleGen.lean);  new harness command harness/cmd/tc2lean (no oracle, no lakefile entry).

import os, subprocess, json

SPEC_ADDITIONS = {
    'C09': ['FpVerif.Spec.C09Gen', 'FpVerif.Spec.C09GenHash', 'FpVerif.Spec.C09GenPred', 'FpVerif.Spec.TCGenCover'],
    'C10': ['FpVerif.Spec.C10Gen', 'FpVerif.Spec.TCGenCover'],
    'C11': ['FpVerif.Spec.C11Gen', 'FpVerif.Spec.TCGenCover'],
    'C18': ['FpVerif.Spec.C18Gen', 'FpVerif.Spec.TCGenCover'],
}


def facts_tcgen(repo, lean):
    """Tie A for the HAND-WRITTEN type-class combinators: harness/cmd/tc2lean TRANSLATES typeclass.go (EqFunc, CompareFunc,
    LessFunc, CloneFunc, EqGiven, LessGiven), monoid.go, eq/eq_op.go, hash/hash_op.go, ord/ord_op.go, monoid/monoid_op.go,
    semigroup/semigroup.go, clone/clone.go of the working tree into Lean definitions (FpVerif/Gen/TCGen.lean, not under
    version control); the committed theorems of Spec/C09Gen, C09GenHash, C09GenPred, C10Gen, C11Gen, C18Gen state, per declaration, that the
    translated definition is the model definition (rfl or a proved extensional equality), Spec/TCGenCover that the exported
    declarations of those files are exactly translated + listed exceptions.  Declarations outside the fragment are NOT an
    error here (the exception list lives in Spec/TCGenCover.lean and is checked there by `decide`)."""
    out = os.path.join(lean, 'FpVerif', 'Gen', 'TCGen.lean')
    os.makedirs(os.path.dirname(out), exist_ok=True)
    harness = os.path.join(os.path.dirname(lean), 'harness')
    env = dict(os.environ, GOFLAGS='-mod=mod', GOPROXY='off', GOSUMDB='off', GOTOOLCHAIN='local')
    tmp_out = out + '.new.%d' % os.getpid()
    p = subprocess.run(['go', 'run', './cmd/tc2lean', repo, tmp_out], cwd=harness, env=env, stdout=subprocess.PIPE,
                       stderr=subprocess.STDOUT, text=True)
    if p.returncode != 0 or not os.path.exists(tmp_out):
        if os.path.exists(out):
            os.remove(out)
        return dict(error='tc2lean failed: ' + p.stdout[-800:], obligations=1)
    # keep the old file (and its build products) when the translation did not change
    if not os.path.exists(out) or open(out).read() != open(tmp_out).read():
        os.replace(tmp_out, out)
    else:
        os.remove(tmp_out)
    info = json.loads(p.stdout.strip().split('\n')[-1])
    res = dict(tc_found=info['found'], tc_translated=info['translated'], tc_helpers=info['helpers'],
               tc_untranslated=sorted(info['untranslated']), obligations=1, generated='FpVerif/Gen/TCGen.lean')
    if info.get('parse_errors'):
        res['error'] = 'tc2lean: parse errors: ' + json.dumps(info['parse_errors'])[:800]
    return res


def facts_tc(repo, lean):
    """both translation ties of the type-class packages: generated TupleN families (go2lean) + hand-written combinators (tc2lean)"""
    a = facts_tuplegen(repo, lean)          # noqa: F821  (defined in checks_config.py)
    b = facts_tcgen(repo, lean)
    res = dict(a)
    res.update({k: v for k, v in b.items() if k not in ('error', 'obligations', 'generated')})
    res['obligations'] = a.get('obligations', 0) + b.get('obligations', 0)
    res['generated'] = ', '.join(x for x in (a.get('generated'), b.get('generated')) if x)
    errs = [x for x in (a.get('error'), b.get('error')) if x]
    if errs:
        res['error'] = '; '.join(errs)
    return res
