# Work package ONCEPANIC — snippet for bin/checks_config.py (property C16).
#
# 1. add the two spec modules to CHECKS['C16']['spec']:
#        'FpVerif.Spec.C16Panic', 'FpVerif.Spec.C16PanicEval'
# 2. add the harness to CHECKS['C16']['harnesses']:
MEMOPANIC_H = H('memopanic', 'oracle_memopanic', 20000, 20000, spec_level=True)
#    (n_thorough is multiplied by THOROUGH_SCALE = 100 by H(): 2,000,000 cases per shard, about 150 s per shard;
#     quick: 20,000 cases per shard, about 1.7 s harness + oracle per shard)
# 3. lean/lakefile.toml: [[lean_exe]] name = "oracle_memopanic", root = "Oracle.MemoPanic"   (already in WS/lean/lakefile.toml)
# 4. in CHECKS['C16']: replace 'Panicking thunks are not modelled.' in `modelled` by MODELLED_ADD, drop the assumption
#    'thunks may log but do not panic', and add ASSUMPTIONS_ADD.

C16_SPEC_ADD = ['FpVerif.Spec.C16Panic', 'FpVerif.Spec.C16PanicEval']

MODELLED_ADD = (
    'Panicking / effectful thunks: Model/MemoPanic.lean (the Once-guarded cell with a thunk f : Nat -> GoM T, f k = k-th execution; '
    'sequential get/getN/getArgs for lazy.Memoize, fp.Memoize, fn1.Memoize; concurrent machine with the atomic steps of sync.Once '
    '(fast-path load, Lock, second load, f, deferred done.Store, deferred Unlock), any number of goroutines x calls, outcome value | panic), '
    'Model/EvalPanic.lean (lazy.Eval with the memo cells of Call / TailCall in a heap: Get repeated, shared sub-terms, thunks that log, panic '
    'and allocate), Model/ListPanic.lean (fp.MakeList head / tail cells, list.GenerateFrom, list.Recurrence1 after a panicking thunk: None / nil interface). '
    'Spec/C16Panic.lean (21 theorems: getN_fresh, getN_panicking, getArgs_fresh, once_runs_le_one, once_answered_after_f, once_returns_agree, '
    'once_panic_at_most_one, once_panic_is_runners, once_fair_quiescent, once_complete_panic_exactly_one, two mutant theorems), '
    'Spec/C16PanicEval.lean (14 theorems: evalp_run_once / listp_run_once for every client program, call_get_then_get, '
    'tailCall_panics_get_then_get, makeList_head_panics, makeList_tail_panics …); memopanic harness: real lazy.Memoize, fp.Memoize, fn1.Memoize, '
    'lazy.Call, TailCall, TailCall1..9, Map/FlatMap/Map2 compositions, fp.MakeList / list.Generate / GenerateFrom / Recurrence1 cells with thunks '
    'whose second execution would differ from the first; real-goroutine runs compared on their schedule-independent summary; direct checks '
    '(execution counter, no answer before the thunk finished, equal answers, termination) for 21 kinds of memoised thing.'
)

ASSUMPTIONS_ADD = [
    'sync.Once (Go 1.23): Do = fast-path atomic load, doSlow = Lock; second load; defer done.Store(1); f(); defer Unlock — the six atomic steps of '
    'Model/MemoPanic.step; the mutex is fair enough that a released Lock() is eventually acquired (liveness theorems quantify over fair schedules)',
    'a thunk is a function of the number of its execution (Nat -> GoM T): it may log, panic and change behaviour between executions, but it does not '
    'itself request the memo it is computing (a re-entrant request deadlocks in sync.Once; not modelled) and Eval / list thunks do not force other cells '
    'while they build their result',
    'panic values are compared by their canonical rendering; a nil-pointer dereference is the single value "nil-deref"',
]
