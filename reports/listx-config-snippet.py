# LISTX: snippet for /verif/bin/checks_config.py
#
# 1. C12: add the new spec module and the new harness (the existing `iter` entry stays as it is)
#
#    'C12': dict(
#        spec=['FpVerif.Spec.C12', 'FpVerif.Spec.C12List', 'FpVerif.Spec.C12Ext'],
#        harnesses=[H('iter', 'oracle_iter', 8000, 800000, spec_level=True, project=project_iter,
#                     extra={'quick': ['-prop', 'C12'], 'thorough': ['-prop', 'C12']}),
#                   # conversion / access functions of fp.Seq, lazy fp.List, xtr; thin iterator wrappers (direct)
#                   H('listx', 'oracle_listx', 3000, 300000, spec_level=True)],
#        ...
#
#    append to C12 'modelled':
LISTX_MODELLED = (
    ' LISTX (Model/ListX.lean, Spec/C12Ext.lean, harness listx): list.go + list/list_op.go Head/Tail/Unapply/Foreach/ToSeq '
    'of Nil, Cons, Seq, ListAdaptor (zero value by direct checks), list.Recurrence1/2 (own memo heap incl. sync.Once after a '
    'panic), ReverseSlice, FromPtr, FromMap/FromMapKey/FromMapValue, ToMap, ToGoMap, ToSet, ToGoSet, FoldFuture; seq.go Size, '
    'IsEmpty, NonEmpty, Get, Head, Init, Last, Tail, Foreach, SliceCasting; seq/seq_op.go Size/Head/Init/Tail/Last, FilterNil, '
    'FromMap/FromMapKeys/FromMapValues, FoldRight, FoldFuture; xtr.Head/Init/Last/Tail; fp.Map.Foreach / fp.Set.Foreach through the '
    'ToMap / ToSet answers; iterator.Lift/Compose/ComposePure/Flatten (equal to the eager computation) and '
    'Map2/FlapMap/Method1/Method2 (prefix of the eager computation: they share one second iterator) by direct checks only.')
#    append to C12 'assumptions':
LISTX_ASSUMPTIONS = [
    'FoldFuture (seq, list) is modelled at the level of the results of completed futures: fn returns an already completed '
    'future or one completed by a later task of the same executor; callbacks run by the executor one after the other '
    '(the chain is sequentially dependent); fn does not panic (a panic inside an executor task is not recovered by FlatMap)',
    'Go maps / fp.Map / fp.Set are association lists with last-write-wins insertion; the HAMT behind immutable.MapBuilder/'
    'SetBuilder is the subject of C04 (Spec/C04Hamt), the hasher\'s Eqv is Go ==; enumeration order of a Go map is a parameter '
    '(theorems for every enumeration, answers compared sorted)',
    'seq.FoldRight step functions force their lazy argument at most once (call-by-name model of lazy.Eval, as for iterator/list)',
]
#
# 2. C10 (Min/Max) is not touched by this package.  String methods (Map/Set/Option/Try.String) are in no property and are
#    not checked.
