# Snippet for bin/checks_config.py (work package ATOMFACTS, Tie C for the concurrency models).
#
# 1. add the function facts_atom (and facts_c16) next to facts_factx;
# 2. in CHECKS:
#      'C05': spec += ['FpVerif.Spec.C05Facts'],                       facts=facts_atom
#      'C06': spec += ['FpVerif.Spec.C06Facts', 'FpVerif.Spec.C05Facts'], facts=facts_atom     (C06 already lists Spec.C05)
#      'C19': spec += ['FpVerif.Spec.C19Facts'],                       facts=facts_atom
#      'C16': spec += ['FpVerif.Spec.C16AtomFacts'],                   facts=facts_c16          (was facts_factx)
# 3. FpVerif/Gen/AtomFacts.lean is generated (not under version control, like Gen/TupleGen.lean); `bin/check setup` has to run
#    facts_atom once before the first `lake build` of the four Spec modules.
# Nothing to add to lakefile.toml (no oracle); harness/cmd/atomfacts is an ordinary command of the harness module.

import os, subprocess, json


def facts_atom(repo, lean):
    """Tie C for C05 / C06 / C19 / C16: harness/cmd/atomfacts (go/ast + go/types, build tag verif) extracts from the WORKING TREE,
    for every function / method / closure of internal/atomic/atomic.go, future.go, promise/*.go, future/future_op.go,
    mutable/copyonwrite.go and the three Memoize functions, the shape (sequence / branch / loop) of its shared-memory events
    (yield <label>, load, store, cas, lock, unlock, once.Do, append, call <callee in the set>, user callback, plain reads / writes of
    closure-shared variables and assigned fields, go, spawn hook, return, panic, any other synchronisation construct) and writes
    FpVerif/Gen/AtomFacts.lean.  The committed theorems of Spec/C05Facts, C19Facts, C06Facts, C16AtomFacts `decide` on that table:
    one yield immediately in front of every access on every path, no two non-commuting accesses in one atomic block, stores under
    the lock, per-function skeleton == the skeleton of the Lean step machine (pc constructor <-> block), the set of functions
    reaching the cell."""
    out = os.path.join(lean, 'FpVerif', 'Gen', 'AtomFacts.lean')
    os.makedirs(os.path.dirname(out), exist_ok=True)
    harness = os.path.join(os.path.dirname(lean), 'harness')
    env = dict(os.environ, GOFLAGS='-mod=mod', GOPROXY='off', GOSUMDB='off', GOTOOLCHAIN='local')
    tmp_out = out + '.new.%d' % os.getpid()
    p = subprocess.run(['go', 'run', './cmd/atomfacts', repo, tmp_out], cwd=harness, env=env, stdout=subprocess.PIPE,
                       stderr=subprocess.STDOUT, text=True)
    if p.returncode != 0 or not os.path.exists(tmp_out):
        # a tree the extractor cannot type-check has no table: the theorems must not be discharged against a stale one
        if os.path.exists(out):
            os.remove(out)
        return dict(error='atomfacts failed: ' + p.stdout[-800:], obligations=1)
    # keep the old file (and its build products) when the table did not change (several properties regenerate it)
    if not os.path.exists(out) or open(out).read() != open(tmp_out).read():
        os.replace(tmp_out, out)
    else:
        os.remove(tmp_out)
    info = json.loads(p.stdout.strip().split('\n')[-1])
    info['obligations'] = 1
    info['generated'] = 'FpVerif/Gen/AtomFacts.lean'
    if info.get('warnings'):
        info['error'] = 'atomfacts: constructs outside the extracted fragment: ' + p.stdout[-800:]
    return info


def facts_c16(repo, lean):
    """C16: the factx table (every deferred computation goes through a Memoize using sync.Once) and the atomfacts table
    (shape of the three Memoize cells)."""
    info = facts_factx(repo, lean)   # noqa: F821  (defined in checks_config.py)
    if info.get('error'):
        return info
    info2 = facts_atom(repo, lean)
    if info2.get('error'):
        return info2
    return dict(functions=info.get('functions'), atom=info2, obligations=2,
                generated='FpVerif/Gen/Facts.lean, FpVerif/Gen/AtomFacts.lean')


# additions to the per-property entries -------------------------------------------------------------------------------------
ATOMFACTS_ADDITIONS = {
    'C05': dict(spec=['FpVerif.Spec.C05Facts'], facts='facts_atom',
                assumptions=['the atomic blocks of Model/Promise.stepT are the code between two verifhook.Yield calls: tied to the '
                             'source by Spec/C05Facts (regenerated table: one yield in front of every sync/atomic operation and of the '
                             'in-place append, retry recursion after a lost CAS, nobody calls Reference.Store); trusted: the extractor '
                             'harness/cmd/atomfacts (go/types resolution of sync/atomic, sync.Mutex, sync.Once, verifhook), and that code '
                             'outside the analysed files cannot reach the unexported cell']),
    'C06': dict(spec=['FpVerif.Spec.C06Facts', 'FpVerif.Spec.C05Facts'], facts='facts_atom'),
    'C19': dict(spec=['FpVerif.Spec.C19Facts'], facts='facts_atom',
                assumptions=['lock; load; [store]; unlock and lock; load; f(m) are single atomic blocks (Lipton reduction: Lock is a '
                             'right-mover, a load under the lock of a cell stored to only under that lock a both-mover, Unlock a left-mover); '
                             'Spec/C19Facts decides the premises on the regenerated table (every store under the lock, one yield in front of '
                             'every lock-free load / Lock / store that follows a user callback)']),
    'C16': dict(spec=['FpVerif.Spec.C16AtomFacts'], facts='facts_c16'),
}
