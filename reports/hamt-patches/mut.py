#!/usr/bin/env python3
"""mut.py NAME FILE OLD NEW [NTH]  -- apply a single textual mutation to WS/repo/FILE, build, run seeds, revert."""
import sys, os, subprocess, shutil, json
WS='/tmp/ws-hamt'
name, f, old, new = sys.argv[1:5]
nth = int(sys.argv[5]) if len(sys.argv) > 5 else 0
extra = os.environ.get('MUT_FLAGS', '-skip D13,D14').split()
path = os.path.join(WS, 'repo', f)
src = open(path).read()
parts = src.split(old)
if len(parts) < 2 + nth:
    print(name, 'PATTERN NOT FOUND', len(parts) - 1); sys.exit(2)
mut = old.join(parts[:nth + 1]) + new + old.join(parts[nth + 1:])
env = dict(os.environ, GOFLAGS='-mod=mod', GOPROXY='off', GOSUMDB='off', GOTOOLCHAIN='local')
try:
    open(path, 'w').write(mut)
    exe = os.path.join(WS, 'out/mut/h_' + name)
    p = subprocess.run(['go', 'build', '-tags', 'verif', '-o', exe, './cmd/hamt'], cwd=os.path.join(WS, 'harness'), env=env, capture_output=True, text=True)
    if p.returncode != 0:
        print(name, 'BUILD FAILED', p.stderr[-400:]); sys.exit(2)
    t = subprocess.run(['go', 'test', './immutable/', './'], cwd=os.path.join(WS, 'repo'), env=env, capture_output=True, text=True)
    unit = 'unit-tests-pass' if t.returncode == 0 else 'UNIT-TESTS-FAIL'
finally:
    open(path, 'w').write(src)
tot_mis = tot_dir = 0; keys = {}; crash = 0; first = None
for seed in range(1000, 1004):
    d = os.path.join(WS, 'out/mut', name + '-' + str(seed)); os.makedirs(d, exist_ok=True)
    try:
        p = subprocess.run([exe, '-seed', str(seed), '-n', '4000', '-out', d] + extra, env=env, capture_output=True, text=True, timeout=600)
        rc = p.returncode
    except subprocess.TimeoutExpired:
        rc = -9
    if rc != 0:
        crash += 1
    ops = open(d + '/ops.txt').read().split('\n')
    impl = open(d + '/impl.txt').read().split('\n')
    nimpl = len([x for x in impl if x != '']) if rc != 0 else None
    with open(d + '/ops.txt') as fin:
        m = subprocess.run([os.path.join(WS, 'lean/.lake/build/bin/oracle_hamt')], stdin=fin, capture_output=True, text=True)
    model = m.stdout.split('\n')
    mis = 0
    for i in range(min(len(impl), len(model))):
        if impl[i] != model[i]:
            mis += 1
            if first is None:
                first = (seed, i, ops[i][:80], impl[i][:80], model[i][:80])
    tot_mis += mis
    for line in open(d + '/direct.txt'):
        k = line.split('\t')[0]; keys[k] = keys.get(k, 0) + 1; tot_dir += 1
print(f'{name}: {unit} oracle_mismatches={tot_mis} direct_written={tot_dir} keys={keys} crashes={crash}')
if first: print('   first mismatch:', first)
shortest = None
for seed in range(1000, 1004):
    for line in open(os.path.join(WS, 'out/mut', name + '-' + str(seed), 'direct.txt')):
        p = line.rstrip('\n').split('\t')
        if shortest is None or len(p[1]) < len(shortest[1]): shortest = p
if shortest: print('   shortest direct:', shortest[0], shortest[1][:300], '|', shortest[2][:200])
