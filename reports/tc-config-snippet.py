# Entries for bin/checks_config.py (CHECKS dict) — properties C09, C10, C11, C18.
# One harness (cmd/tc, oracle_tc) serves C09/C10/C11; `-only` selects the classes a property is about.
# lakefile.toml needs:  [[lean_exe]] name="oracle_tc" root="Oracle.TypeClasses"
#                       [[lean_exe]] name="oracle_clone" root="Oracle.Clone"

def _only(classes):
    return dict(quick=['-only', classes], thorough=['-only', classes])

CHECKS_TC = {
    'C09': dict(
        spec=['FpVerif.Spec.C09'],
        harnesses=[H('tc', 'oracle_tc', 3000, 300000, extra=_only('eq,hash'))],
        level='proof',
        modelled='typeclass.go (Eq, EqFunc, EqGiven, Hashable); eq/eq_op.go (New, Time, Bytes, Tuple1, Option, Seq, Slice, '
                 'HNil, HCons, Given, Ptr, PtrGiven, ContraMap, String, GoMap, FpMap) + eq/tuple_gen.go (Tuple2..21 as the '
                 'recursion head × Tuple(N-1)); hash/hash_op.go (hashUint64, New, Number, String, Bytes, Tuple1, HNil, HCons, '
                 'Seq, Slice, Ptr, Option, ContraMap) + hash/tuple_gen.go. Not modelled: the predicate helpers of eq_op.go '
                 '(GivenValue, NotNilAnd, …: not Eq instances), float keys (excluded by the property).',
        assumptions=['Go `int` is Int64 in the oracle; theorems hold for every carrier with decidable equality',
                     'a Go map / fp.Map is an association list with distinct keys (fp.Map = mathematical map is C03)',
                     'time.Time is (instant, location); Equal/Compare look at the instant only',
                     'ContraMap functions are pure (the theorems quantify over all functions)'],
    ),
    'C10': dict(
        spec=['FpVerif.Spec.C10'],
        harnesses=[H('tc', 'oracle_tc', 3000, 200000, extra=_only('ord'))],
        level='proof',
        modelled='typeclass.go (Ord, CompareFunc, LessFunc with all derived methods, LessGiven); ord/ord_op.go (FromCompare, New, '
                 'Time, Tuple1, Option, Seq, Slice, HNil, HCons, Given, GivenField, ContraMap, Ptr) + ord/tuple_gen.go; as.Ord; '
                 'Sort/Min/Max of seq/seq_op.go, iterator/iterator_op.go, list/list_op.go.',
        assumptions=['sort.Sort returns an ordered permutation when Less is a strict weak order (hypothesis SortSpec of the '
                     'theorems, satisfiable: List.mergeSort); it is unstable, so the comparison canonicalises runs of Eqv elements',
                     'Compare results are mathematical integers: a user comparison never returns math.MinInt (Reversed negates)',
                     'user functions handed to as.Ord / ord.New / ord.FromCompare are strict weak orders / lawful three-way '
                     'comparisons (hypotheses StrictWeak / CmpLawful of the theorems)',
                     'iterators and lists handed to Sort/Min/Max are viewed as the finite list they yield',
                     'that seq.Sort sorts its INPUT in place (r.Concat(nil) returns r) is a C04 matter: counted in the histogram '
                     '(note:seq.Sort-mutated-its-input(C04)), a failure only with the harness flag -c04'],
    ),
    'C11': dict(
        spec=['FpVerif.Spec.C11'],
        harnesses=[H('tc', 'oracle_tc', 3000, 300000, extra=_only('mon,sg'))],
        level='proof',
        modelled='monoid.go (SemigroupFunc, Sum, Product, monoid); monoid/monoid_op.go (New, String, Sum, Product, Option, Try, '
                 'MergeSeq, MergeSlice, HNil, HCons, Endo, Dual, Eval, Any, All, IMap, MergeMap, MergeSet, MergeGoMap, Ptr, Unit) '
                 '+ monoid/tuple_gen.go; semigroup/semigroup.go (all); Reduce/FoldMap/Fold/FoldRight of seq, iterator, list. '
                 'Not modelled: monoid.Future (not in the property).',
        assumptions=['lazy.Eval is observed through Get (faithfulness of the trampoline is C16)',
                     'pointers produced by monoid.Ptr / semigroup.Ptr are compared by target',
                     'map monoids are lawful up to map content (iteration order is not part of the value)',
                     'Try values are properly initialised (Success or Failure with a non-nil error)',
                     'functions (Endo) are compared extensionally; in the harness on the domain [-2..3]'],
    ),
    'C18': dict(
        spec=['FpVerif.Spec.C18'],
        harnesses=[H('clone', 'oracle_clone', 4000, 400000)],
        level='proof',
        modelled='clone/clone.go (New, Ptr, Given, HNil, Seq, GoMap, Slice, Option, HCons, Tuple2, Generic) + clone/clone_gen.go '
                 '(Tuple3..21) over an explicit heap of cells (pointer targets, slice backing arrays, Go maps).',
        assumptions=['cells are allocated after their contents were cloned (Go allocates the container first); addresses are '
                     'not observable and element cloners only allocate',
                     'a slice is (array, length) with offset 0; TupleN/HCons are nested pairs; a struct and its fp.Generic '
                     'representation are the same tuple (gen.To/gen.From move fields and do not allocate)',
                     'Given is used at value types only (the property says so); map keys are pairwise distinct under ==',
                     'the Go runtime implements pointers, slices and maps as the heap model says'],
    ),
}
