# --- snippet for bin/checks_config.py (work package CORE2LEAN) ------------------------------------------------------------
# Tie A for the hand-written cores of Option / Try / Either / StateT (properties C01, C02, C17).
#
#   1. add the function below next to facts_tuplegen
#   2. CHECKS['C01']: spec += ['FpVerif.Spec.C01CoreGen'], facts=facts_coregen
#      CHECKS['C02']: spec += ['FpVerif.Spec.C01CoreGen'], facts=facts_coregen
#      CHECKS['C17']: spec += ['FpVerif.Spec.C01CoreGen'], facts=facts_coregen
#      (if a check already has a facts function — e.g. the monad-family tie of work package MONADGEN — chain them:
#       facts=lambda repo, lean: merge_facts(facts_monadgen(repo, lean), facts_coregen(repo, lean)); see merge_facts below)
#   3. FpVerif/Gen/CoreGen.lean is generated: add it to .gitignore next to Gen/TupleGen.lean; bin/check setup must run the
#      extractor once before the first `lake build` (as it does for TupleGen: `cfg['facts'](REPO, LEAN)`).

import os, subprocess, json, re


def facts_coregen(repo, lean):
    """Tie A (cores): harness/cmd/core2lean TRANSLATES the hand-written function bodies of try.go, option.go, either.go, state.go,
    try/try_op.go, option/option_op.go, either/either_op.go, statet/statet_op.go found in the working tree into Lean definitions
    over GoM (FpVerif/Gen/CoreGen.lean, not under version control); the committed theorems of Spec/C01CoreGen.lean state, per
    function, that the translated definition is the hand-written model, that the files contain nothing else (coverage), and
    restate the monad laws / of_spec / put_get / recover_failure for the translated definitions."""
    out = os.path.join(lean, 'FpVerif', 'Gen', 'CoreGen.lean')
    os.makedirs(os.path.dirname(out), exist_ok=True)
    harness = os.path.join(os.path.dirname(lean), 'harness')
    env = dict(os.environ, GOFLAGS='-mod=mod', GOPROXY='off', GOSUMDB='off', GOTOOLCHAIN='local')
    tmp_out = out + '.new.%d' % os.getpid()
    p = subprocess.run(['go', 'run', './cmd/core2lean', repo, tmp_out], cwd=harness, env=env, stdout=subprocess.PIPE,
                       stderr=subprocess.STDOUT, text=True)
    if p.returncode != 0 or not os.path.exists(tmp_out):
        if os.path.exists(out):
            os.remove(out)
        return dict(error='core2lean failed: ' + p.stdout[-800:], obligations=1)
    # keep the old file (and its build products) when the translation did not change
    if not os.path.exists(out) or open(out).read() != open(tmp_out).read():
        os.replace(tmp_out, out)
    else:
        os.remove(tmp_out)
    info = json.loads(p.stdout.strip().split('\n')[-1])
    res = dict(translated=info['translated'], untranslatable=info['untranslatable'], exceptions=sorted(info['exceptions']),
               other_ties=len(info['other_ties']), obligations=2, generated='FpVerif/Gen/CoreGen.lean')
    if info['untranslatable']:
        res['error'] = 'core2lean: outside the translated fragment: ' + json.dumps(info['untranslatable'])[:800]
        return res
    # second obligation: every translated function has its committed theorem (<pkg>_<name>_is_model or <pkg>_<name>_def)
    spec = open(os.path.join(lean, 'FpVerif', 'Spec', 'C01CoreGen.lean')).read()
    gen = open(out).read()
    m = re.search(r'^def translated : List String := \[(.*)\]$', gen, re.M)
    names = re.findall(r'"([^"]+)"', m.group(1)) if m else []
    missing = [n for n in names
               if not re.search(r'^theorem %s_(is_model|def)\b' % re.escape(n.replace('.', '_')), spec, re.M)]
    if not names or missing:
        res['error'] = 'core2lean: translated functions without a committed theorem: ' + ', '.join(missing or ['<none translated>'])
    return res


def merge_facts(*infos):
    """combine the results of several fact extractors of one check"""
    out = dict(obligations=0)
    for i in infos:
        for k, v in i.items():
            if k == 'obligations':
                out['obligations'] += v
            elif k == 'error':
                out['error'] = (out.get('error', '') + ' | ' + v).strip(' |')
            elif k == 'generated':
                out['generated'] = (out.get('generated', '') + ', ' + v).strip(', ')
            else:
                out.setdefault(k, v)
    return out

# assumptions to add to C01 / C02 / C17 (see REPORT.md, "Trusted"):
CORE2LEAN_ASSUMPTIONS = [
    'core2lean (Tie A, cores): the translator\'s reading of the Go fragment is trusted — fp.Try{success,v,err} as the inductive Try '
    '(Failure(nil) = the zero value), the interface fp.Either as an inductive with constructor dispatch, *T as Option T, fp.Seq / '
    'fp.Iterator as List (an iterator is the list it yields), Go evaluation order = order of the binds, panic values by rendering, '
    'defer/recover in the Of/Call/CallUnit shape = tryCatch; functions on the exception list (REPORT.md) stay tied by the harnesses only',
]
