# Snippet for /verif/bin/checks_config.py (work package MONADGEN, session 6).
#
# 1. add the two functions below next to facts_tuplegen;
# 2. add 'FpVerif.Spec.C01Gen' to the `spec` lists of C01, C02, C14 and C17;
# 3. set `facts=` of those four checks:
#        C01, C02, C17:  facts=facts_monadgen
#        C14:            facts=facts_all(facts_tuplegen, facts_monadgen)      (C14 already has facts_tuplegen)
#    (bin/check calls cfg['facts'](REPO, LEAN) before `lake build`, and once more in `setup`, so that
#     lean/FpVerif/Gen/MonadGen.lean - which is NOT under version control, lean/FpVerif/Gen/ is git-ignored - exists.)
# 4. new committed files: harness/cmd/monad2lean/main.go, lean/FpVerif/Model/MonadGenPrelude.lean,
#    lean/FpVerif/Spec/C01Gen.lean, bin/mk_c01gen.py (writes Spec/C01Gen.lean; run once, output committed),
#    bin/monadgen_mutations.py (the hand mutations of REPORT.md, optional).
#    No lakefile.toml change is needed (no oracle; the modules belong to the lean_lib FpVerif).
import json
import os
import subprocess


def facts_monadgen(repo, lean):
    """Tie A for the generated monad family: harness/cmd/monad2lean TRANSLATES option/try/either/statet *_monad.go and
    *_traverse.go of the working tree into Lean definitions over MonadOps (FpVerif/Gen/MonadGen.lean, not under version
    control); the committed theorems of Spec/C01Gen.lean state, function by function, that the translated definition is the
    hand-written model definition of Model/MonadFamily.lean (`rfl`, or for lawful packages where the Go code instantiates a
    plain-callback parameter with a monadic-result function), that the set of functions is the expected one and that the
    four packages carry the same template (`no_divergence`)."""
    out = os.path.join(lean, 'FpVerif', 'Gen', 'MonadGen.lean')
    os.makedirs(os.path.dirname(out), exist_ok=True)
    harness = os.path.join(os.path.dirname(lean), 'harness')
    env = dict(os.environ, GOFLAGS='-mod=mod', GOPROXY='off', GOSUMDB='off', GOTOOLCHAIN='local')
    tmp_out = out + '.new.%d' % os.getpid()
    p = subprocess.run(['go', 'run', './cmd/monad2lean', repo, tmp_out], cwd=harness, env=env, stdout=subprocess.PIPE,
                       stderr=subprocess.STDOUT, text=True)
    if p.returncode != 0 or not os.path.exists(tmp_out):
        if os.path.exists(out):
            os.remove(out)
        return dict(error='monad2lean failed: ' + p.stdout[-800:], obligations=1)
    # keep the old file (and its build products) when the translation did not change
    if not os.path.exists(out) or open(out).read() != open(tmp_out).read():
        os.replace(tmp_out, out)
    else:
        os.remove(tmp_out)
    info = json.loads(p.stdout.strip().split('\n')[-1])
    res = dict(translated=info['translated'], untranslatable=info['untranslatable'], divergent=info.get('divergent', []),
               packages=info.get('packages', {}), external=info.get('external', {}), obligations=1,
               generated='FpVerif/Gen/MonadGen.lean')
    problems = []
    if info['untranslatable']:
        problems.append('outside the translated fragment: ' + json.dumps(info['untranslatable'])[:600])
    if info.get('divergent'):
        problems.append('the four packages no longer carry the same template: ' + json.dumps(info['divergent'])[:300])
    if problems:
        res['error'] = 'monad2lean: ' + '; '.join(problems)
    return res


def facts_all(*fs):
    """several fact extractors for one check (C14: facts_tuplegen and facts_monadgen)"""
    def run(repo, lean):
        res, errors, obligations = {}, [], 0
        for f in fs:
            r = f(repo, lean)
            obligations += r.pop('obligations', 0)
            if r.get('error'):
                errors.append(r.pop('error'))
            res[f.__name__] = r
        res['obligations'] = obligations
        if errors:
            res['error'] = '; '.join(errors)
        return res
    run.__name__ = 'facts_' + '_'.join(f.__name__.replace('facts_', '') for f in fs)
    return run
