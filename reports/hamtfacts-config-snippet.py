# --- snippet for bin/checks_config.py (work package HAMTFACTS) -----------------------------------------------------------
# 1. add the function below (next to facts_atom)
# 2. C03:  spec=[..., 'FpVerif.Spec.C03Facts'],  facts=facts_hamt            (C03 has no `facts` entry yet)
#    C04:  spec=[..., 'FpVerif.Spec.C03Facts'],  facts=facts_all(facts_c04, facts_hamt)
# 3. .gitignore: lean/FpVerif/Gen/HamtFacts.lean (generated, not under version control, like the other Gen/* tables)

def facts_hamt(repo, lean):
    """Tie C for C03 / C04: harness/cmd/hamtfacts (go/ast + go/types, build tag verif) extracts from the WORKING TREE's
    immutable/map.go every constant with its value, the struct types with their fields, the interfaces, the methods per
    receiver type (node kinds = the types declaring every method of mapNode), every comparison against a compile-time
    constant (promotion / demotion thresholds: function, lhs, operator, bound), every hash-fragment expression
    `(hash >> shift) & mask`, the argument handed to `shift` at every call, the argument of every bits.OnesCount32 call, the
    length of the iterator's stack array, and per function / method / closure its normalised statement tree (skeleton), and
    writes FpVerif/Gen/HamtFacts.lean.  The committed theorems of Spec/C03Facts `decide` on that table: the constants EQUAL
    the constants of Model/Hamt.lean, every threshold has the operator and bound of the model's branch, the node kinds are
    the five constructors of Hamt.Node with the expected methods and fields, the shift / popcount arithmetic is the model's,
    the iterator stack has >= ceil(32 / mapNodeBits) + 1 slots, and every modelled function's skeleton equals the one
    written next to the model definition it mirrors."""
    out = os.path.join(lean, 'FpVerif', 'Gen', 'HamtFacts.lean')
    os.makedirs(os.path.dirname(out), exist_ok=True)
    harness = os.path.join(os.path.dirname(lean), 'harness')
    env = dict(os.environ, GOFLAGS='-mod=mod', GOPROXY='off', GOSUMDB='off', GOTOOLCHAIN='local')
    tmp_out = out + '.new.%d' % os.getpid()
    p = subprocess.run(['go', 'run', './cmd/hamtfacts', repo, tmp_out], cwd=harness, env=env, stdout=subprocess.PIPE,
                       stderr=subprocess.STDOUT, text=True)
    if p.returncode != 0 or not os.path.exists(tmp_out):
        # a tree the extractor cannot type-check has no table: the theorems must not be discharged against a stale one
        if os.path.exists(out):
            os.remove(out)
        return dict(error='hamtfacts failed: ' + p.stdout[-800:], obligations=1)
    # keep the old file (and its build products) when the table did not change (C03 and C04 both regenerate it)
    if not os.path.exists(out) or open(out).read() != open(tmp_out).read():
        os.replace(tmp_out, out)
    else:
        os.remove(tmp_out)
    info = json.loads(p.stdout.strip().split('\n')[-1])
    info['obligations'] = 1
    info['generated'] = 'FpVerif/Gen/HamtFacts.lean'
    if info.get('warnings'):
        info['error'] = 'hamtfacts: constructs outside the extracted fragment: ' + p.stdout[-800:]
    return info
