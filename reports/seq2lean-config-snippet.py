# --- work package SEQ2LEAN: snippet for bin/checks_config.py -------------------------------------------------------
# 1. add the function below next to facts_tcgen / facts_coregen
# 2. register it as a `facts` step of C12 (main), C01 and C11 (like facts_tcgen under C09/C10/C11/C18), and add
#        'FpVerif.Spec.C12SeqGen', 'FpVerif.Spec.SeqGenCover'
#    to the spec modules of C12 (C01 and C11 may list them too: the theorems seq_Map_eq / seq_FlatMap_eq / seq_Ap_eq … are
#    stated against Model/CollMonad (C01) and seq_Reduce_eq / seq_FoldMap_eq against the left fold (C11)).
# 3. add `lean/FpVerif/Gen/SeqGen.lean` to .gitignore (generated on every check).
# No new oracle, no new harness, no lakefile entry (library modules only).

def facts_seqgen(repo, lean):
    """Tie A for the EAGER Seq functions: harness/cmd/seq2lean TRANSLATES seq/seq_op.go and the fp.Seq methods / package
    functions of seq.go of the working tree into Lean definitions over GoM (FpVerif/Gen/SeqGen.lean, not under version
    control; semantics of the Go fragment: Model/GoSemM.lean).  The committed theorems of Spec/C12SeqGen state, per function,
    that the translated definition equals the structural list recursion / the Lean list function that the C12 / C01 / C11
    theorems use as the eager reference; Spec/SeqGenCover that the exported functions of the two files are exactly
    translated + listed exceptions.  Functions outside the fragment are NOT an error here (the exception list lives in
    Spec/SeqGenCover.lean and is checked there by `decide`)."""
    out = os.path.join(lean, 'FpVerif', 'Gen', 'SeqGen.lean')
    os.makedirs(os.path.dirname(out), exist_ok=True)
    harness = os.path.join(os.path.dirname(lean), 'harness')
    env = dict(os.environ, GOFLAGS='-mod=mod', GOPROXY='off', GOSUMDB='off', GOTOOLCHAIN='local')
    tmp_out = out + '.new.%d' % os.getpid()
    p = subprocess.run(['go', 'run', './cmd/seq2lean', repo, tmp_out], cwd=harness, env=env, stdout=subprocess.PIPE,
                       stderr=subprocess.STDOUT, text=True)
    if p.returncode != 0 or not os.path.exists(tmp_out):
        if os.path.exists(out):
            os.remove(out)
        return dict(error='seq2lean failed: ' + p.stdout[-800:], obligations=1)
    # keep the old file (and its build products) when the translation did not change
    if not os.path.exists(out) or open(out).read() != open(tmp_out).read():
        os.replace(tmp_out, out)
    else:
        os.remove(tmp_out)
    info = json.loads(p.stdout.strip().split('\n')[-1])
    res = dict(seq_found=len(info['found']), seq_translated=len(info['translated']),
               seq_untranslated=sorted(info['untranslated']), obligations=1, generated='FpVerif/Gen/SeqGen.lean')
    if info.get('parse_errors'):
        res['error'] = 'seq2lean: parse errors: ' + json.dumps(info['parse_errors'])[:800]
    return res
